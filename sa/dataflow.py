"""Reaching definitions, value ids (canonical expressions), polynomial normal
form (LIN) and comparison normal form (CMP).

Nothing here executes the analysed code and nothing is handed to a solver:
this is the algebraic simplification a compiler does in value numbering.
"""
from __future__ import annotations
import ast
import re
from fractions import Fraction
from typing import Dict, List, Optional, Tuple, Set, FrozenSet, Callable
from .model import FuncInfo, AnalysisError, ClassInfo
from .cfg import CFG, Node

# ----------------------------------------------------------------------------
# Reaching definitions
# ----------------------------------------------------------------------------


class Def:
    __slots__ = ("var", "node", "kind", "value", "ast")

    def __init__(self, var: str, node: int, kind: str, value: Optional[ast.AST], astnode: Optional[ast.AST]):
        self.var = var
        self.node = node      # cfg node id (entry id for params)
        self.kind = kind      # param assign aug for with except unpack import def opaque
        self.value = value    # rhs for assign/aug
        self.ast = astnode

    def __repr__(self):
        return f"Def({self.var}@{self.node}:{self.kind})"


def _targets(t: ast.AST) -> List[Tuple[str, bool]]:
    """names bound by an assignment target; bool = simple (whole value)."""
    if isinstance(t, ast.Name):
        return [(t.id, True)]
    if isinstance(t, (ast.Tuple, ast.List)):
        out = []
        for e in t.elts:
            out += [(n, False) for n, _ in _targets(e)]
        return out
    if isinstance(t, ast.Starred):
        return [(n, False) for n, _ in _targets(t.value)]
    return []


def target_path(t: ast.AST, name: str) -> Optional[List[int]]:
    """Index path of `name` inside an unpacking target: `k, (a, b)` -> b is [1, 1]; [] for a plain name; None if absent / starred."""
    if isinstance(t, ast.Name):
        return [] if t.id == name else None
    if isinstance(t, (ast.Tuple, ast.List)):
        for i, e in enumerate(t.elts):
            if isinstance(e, ast.Starred):
                if any(isinstance(x, ast.Name) and x.id == name for x in ast.walk(e)):
                    return None
                continue
            p = target_path(e, name)
            if p is not None:
                return [i] + p
    return None


def item_atom(it_key: str, path: Optional[List[int]], flat_tag: str = "") -> str:
    """Value id of a loop variable: `item∈IT` for a plain target, `item#i∈unpack(IT)` for the i-th element of an unpacked item and
    `(item#i∈unpack(IT))[j]` for an element nested deeper (the same id `x = item_i; x[j]` has)."""
    if path is None:
        return f"item{flat_tag}∈unpack({it_key})"
    if not path:
        return f"item∈{it_key}"
    k = f"item#{path[0]}∈unpack({it_key})"
    for j in path[1:]:
        k = f"{_paren(k)}[{j}]"
    return k


class ReachingDefs:
    def __init__(self, f: FuncInfo, cfg: CFG):
        self.f = f
        self.cfg = cfg
        self.defs: List[Def] = []
        self.gen: Dict[int, List[int]] = {n.id: [] for n in cfg.nodes}
        a = f.node.args
        for p in a.posonlyargs + a.args + a.kwonlyargs + ([a.vararg] if a.vararg else []) + ([a.kwarg] if a.kwarg else []):
            self._add(Def(p.arg, cfg.entry.id, "param", None, p))
        for n in cfg.nodes:
            s = n.ast
            if s is None:
                continue
            if n.kind == "stmt":
                if isinstance(s, ast.Assign):
                    for t in s.targets:
                        for name, simple in _targets(t):
                            self._add(Def(name, n.id, "assign" if simple and len(s.targets) >= 1 else "unpack", s.value if simple else None, s))
                elif isinstance(s, ast.AnnAssign):
                    if isinstance(s.target, ast.Name) and s.value is not None:
                        self._add(Def(s.target.id, n.id, "assign", s.value, s))
                elif isinstance(s, ast.AugAssign):
                    if isinstance(s.target, ast.Name):
                        self._add(Def(s.target.id, n.id, "aug", s.value, s))
                elif (isinstance(s, ast.Expr) and isinstance(s.value, ast.Call) and isinstance(s.value.func, ast.Attribute) and isinstance(s.value.func.value, ast.Name)
                      and any(k.arg == "inplace" and isinstance(k.value, ast.Constant) and k.value.value is True for k in s.value.keywords)):
                    # pandas in-place idiom `X.ffill(inplace=True)`: X now stands for the result of the call on the previous X
                    self._add(Def(s.value.func.value.id, n.id, "inplace", s.value, s))
                elif isinstance(s, (ast.Import, ast.ImportFrom)):
                    for al in s.names:
                        self._add(Def((al.asname or al.name).split(".")[0], n.id, "import", None, s))
                elif isinstance(s, (ast.FunctionDef, ast.ClassDef)):
                    self._add(Def(s.name, n.id, "def", None, s))
                # walrus
                for sub in ast.walk(s):
                    if isinstance(sub, ast.NamedExpr) and isinstance(sub.target, ast.Name):
                        self._add(Def(sub.target.id, n.id, "opaque", None, sub))
            elif n.kind == "iter":
                for name, simple in _targets(s.target):
                    self._add(Def(name, n.id, "for", s.iter if simple else None, s))
            elif n.kind == "with":
                for it in s.items:
                    if it.optional_vars is not None:
                        for name, simple in _targets(it.optional_vars):
                            self._add(Def(name, n.id, "with", it.context_expr, s))
            elif n.kind == "handler":
                if s.name:
                    self._add(Def(s.name, n.id, "except", None, s))
        self._solve()

    def _add(self, d: Def):
        self.defs.append(d)
        self.gen[d.node].append(len(self.defs) - 1)

    def _solve(self):
        cfg = self.cfg
        self.IN: Dict[int, Dict[str, FrozenSet[int]]] = {n.id: {} for n in cfg.nodes}
        OUT: Dict[int, Dict[str, FrozenSet[int]]] = {n.id: {} for n in cfg.nodes}
        work = [n.id for n in cfg.nodes]
        while work:
            x = work.pop(0)
            inn: Dict[str, Set[int]] = {}
            for p, _ in cfg.pred[x]:
                for v, ds in OUT[p].items():
                    inn.setdefault(v, set()).update(ds)
            inn_f = {v: frozenset(ds) for v, ds in inn.items()}
            self.IN[x] = inn_f
            out = dict(inn_f)
            for di in self.gen[x]:
                d = self.defs[di]
                if d.kind == "aug":
                    out[d.var] = frozenset([di])
                else:
                    out[d.var] = frozenset([di])
            # several defs of different vars in same node are all kept
            if out != OUT[x]:
                OUT[x] = out
                for y, _ in cfg.succ[x]:
                    if y not in work:
                        work.append(y)
        self.OUT = OUT

    def reaching(self, var: str, node_id: int) -> List[Def]:
        return [self.defs[i] for i in sorted(self.IN[node_id].get(var, ()))]


# ----------------------------------------------------------------------------
# Polynomials
# ----------------------------------------------------------------------------

Mono = Tuple[Tuple[str, int], ...]


class Poly:
    __slots__ = ("t",)

    def __init__(self, terms: Dict[Mono, Fraction] = None):
        self.t: Dict[Mono, Fraction] = {m: c for m, c in (terms or {}).items() if c != 0}

    @staticmethod
    def const(c) -> "Poly":
        return Poly({(): Fraction(c)})

    @staticmethod
    def atom(name: str, exp: int = 1) -> "Poly":
        return Poly({((name, exp),): Fraction(1)})

    def is_const(self) -> bool:
        return all(m == () for m in self.t)

    def const_value(self) -> Optional[Fraction]:
        if self.is_const():
            return self.t.get((), Fraction(0))
        return None

    def __add__(self, o: "Poly") -> "Poly":
        r = dict(self.t)
        for m, c in o.t.items():
            r[m] = r.get(m, 0) + c
        return Poly(r)

    def __neg__(self) -> "Poly":
        return Poly({m: -c for m, c in self.t.items()})

    def __sub__(self, o: "Poly") -> "Poly":
        return self + (-o)

    def __mul__(self, o: "Poly") -> "Poly":
        r: Dict[Mono, Fraction] = {}
        for m1, c1 in self.t.items():
            for m2, c2 in o.t.items():
                m = _mono_mul(m1, m2)
                r[m] = r.get(m, 0) + c1 * c2
        return Poly(r)

    def inverse(self) -> Optional["Poly"]:
        if len(self.t) == 1:
            (m, c), = self.t.items()
            return Poly({tuple((a, -e) for a, e in m): Fraction(1) / c})
        return None

    def __eq__(self, o) -> bool:
        return isinstance(o, Poly) and self.t == o.t

    def __hash__(self):
        return hash(self.key())

    def atoms(self) -> Set[str]:
        return {a for m in self.t for a, _ in m}

    def key(self) -> str:
        if not self.t:
            return "0"
        parts = []
        for m in sorted(self.t, key=lambda m: (len(m), m)):
            c = self.t[m]
            ms = "*".join(a if e == 1 else f"{a}^{e}" for a, e in m)
            if not ms:
                parts.append(str(c))
            elif c == 1:
                parts.append(ms)
            elif c == -1:
                parts.append("-" + ms)
            else:
                parts.append(f"{c}*{ms}")
        return " + ".join(parts)

    def __repr__(self):
        return f"Poly({self.key()})"

    def sign_normalised(self) -> Tuple["Poly", int]:
        """Return (p or -p, sign) such that the leading coefficient is > 0."""
        if not self.t:
            return self, 1
        m = sorted(self.t, key=lambda m: (len(m), m))[-1]
        if self.t[m] < 0:
            return -self, -1
        return self, 1

    def coeff_of_atom(self, atom: str) -> "Poly":
        """Coefficient polynomial of `atom`^1 (terms linear in atom)."""
        r = {}
        for m, c in self.t.items():
            d = dict(m)
            if d.get(atom) == 1:
                rest = tuple((a, e) for a, e in m if a != atom)
                r[rest] = r.get(rest, 0) + c
        return Poly(r)

    def without_atom(self, atom: str) -> "Poly":
        return Poly({m: c for m, c in self.t.items() if atom not in dict(m)})

    def subst(self, atom: str, val: "Poly") -> "Poly":
        out = Poly()
        for m, c in self.t.items():
            term = Poly.const(c)
            for a, e in m:
                if a == atom:
                    if e > 0:
                        for _ in range(e):
                            term = term * val
                    else:
                        inv = val.inverse()
                        if inv is None:
                            term = term * Poly.atom(f"({val.key()})", e)
                        else:
                            for _ in range(-e):
                                term = term * inv
                else:
                    term = term * Poly.atom(a, e)
            out = out + term
        return out


def _mono_mul(a: Mono, b: Mono) -> Mono:
    d: Dict[str, int] = dict(a)
    for k, e in b:
        d[k] = d.get(k, 0) + e
    return tuple(sorted((k, e) for k, e in d.items() if e != 0))


# ----------------------------------------------------------------------------
# Symbolic normaliser
# ----------------------------------------------------------------------------

TRANSPARENT_CALLS = {"float"}  # float(x) is the identity on the values concerned


class Sym:
    """Canonicalises expressions of one function.

    * locals are replaced by their unique reaching definition (value ids);
    * arithmetic is put in polynomial normal form;
    * trivial in-package properties/methods (single `return expr`) may be
      inlined through `inliner`;
    * `eager` maps local names to polynomials (used by straight-line passes).
    """

    def __init__(self, f: FuncInfo, cfg: CFG = None, rd: ReachingDefs = None,
                 inliner: Optional[Callable] = None, max_depth: int = 60):
        self.f = f
        self.cfg = cfg or CFG(f.node)
        self.rd = rd or ReachingDefs(f, self.cfg)
        self.inliner = inliner
        self.eager: Dict[str, Poly] = {}
        self.state: Dict[str, Poly] = {}      # canonical slot -> current value
        self.max_depth = max_depth
        self.bound: Dict[str, str] = {}       # name -> canonical string override (inlining)
        self.suffix: Optional[Callable[[str], str]] = None   # version suffix for untracked state reads
        self.tuple_inliner: Optional[Callable] = None
        self.decide: Optional[Callable] = None   # cmp normal form -> True / False / None: assumptions under which conditional values collapse
        self.scope: List[Dict[str, str]] = []  # comprehension/lambda bound names -> positional canonical names (alpha-normal form)

    # ---- helpers
    def _node_id(self, e: ast.AST, at: Optional[int]) -> Optional[int]:
        if at is not None:
            return at
        n = self.cfg.node_of(e)
        return n.id if n is not None else None

    def ev(self, e: ast.AST, at: Optional[int] = None, depth: int = 0) -> Poly:
        at = self._node_id(e, at)
        if depth > self.max_depth:
            return Poly.atom(f"<deep:{ast.unparse(e)}>")
        if isinstance(e, ast.Constant):
            v = e.value
            if isinstance(v, bool) or v is None or isinstance(v, (str, bytes)) or v is Ellipsis:
                return Poly.atom(repr(v))
            if isinstance(v, int):
                return Poly.const(v)
            if isinstance(v, float):
                if v != v or v in (float("inf"), float("-inf")):
                    return Poly.atom(repr(v))
                return Poly.const(Fraction(str(v)))
            return Poly.atom(repr(v))
        if isinstance(e, ast.Name):
            return self._name(e, at, depth)
        if isinstance(e, ast.UnaryOp):
            if isinstance(e.op, ast.USub):
                return -self.ev(e.operand, at, depth + 1)
            if isinstance(e.op, ast.UAdd):
                return self.ev(e.operand, at, depth + 1)
            if isinstance(e.op, ast.Not):
                return Poly.atom("not(" + cmp_key(self.cmp(e.operand, at, depth + 1)) + ")")
            return Poly.atom("~(" + self.canon(e.operand, at, depth + 1) + ")")
        if isinstance(e, ast.BinOp):
            l = self.ev(e.left, at, depth + 1)
            r = self.ev(e.right, at, depth + 1)
            if isinstance(e.op, ast.Add):
                if _is_sequence_expr(e.left) or _is_sequence_expr(e.right):
                    # `+` of sequences is concatenation: ordered, not the commutative sum of the polynomial domain
                    return Poly.atom(f"concat({l.key()}, {r.key()})")
                return l + r
            if isinstance(e.op, ast.Sub):
                return l - r
            if isinstance(e.op, ast.Mult):
                return l * r
            if isinstance(e.op, ast.Div):
                inv = r.inverse()
                if inv is not None:
                    return l * inv
                return l * Poly.atom("(" + r.key() + ")", -1)
            if isinstance(e.op, ast.Pow):
                c = r.const_value()
                if c is not None and c.denominator == 1 and 0 <= c <= 6:
                    out = Poly.const(1)
                    for _ in range(int(c)):
                        out = out * l
                    return out
                if c is not None and c.denominator == 1 and -6 <= c < 0:
                    inv = l.inverse()
                    if inv is not None:
                        out = Poly.const(1)
                        for _ in range(int(-c)):
                            out = out * inv
                        return out
                return Poly.atom(f"pow({l.key()}, {r.key()})")
            opn = type(e.op).__name__
            return Poly.atom(f"{opn}({l.key()}, {r.key()})")
        if isinstance(e, ast.IfExp):
            c_ = self.cmp(e.test, at, depth + 1)
            if self.decide is not None:
                v_ = self.decide(c_)
                if v_ is not None:
                    return self.ev(e.body if v_ else e.orelse, at, depth + 1)
            return ite_atom(c_, self.ev(e.body, at, depth + 1), self.ev(e.orelse, at, depth + 1))
        if isinstance(e, ast.Call):
            return self._call(e, at, depth)
        if isinstance(e, ast.Attribute):
            return self._attr(e, at, depth)
        if isinstance(e, ast.Subscript):
            k = self._subscript_key(e, at, depth)
            if k in self.state:
                return self.state[k]
            return Poly.atom(k + (self.suffix(k) if self.suffix and "@v" not in k else ""))
        if isinstance(e, ast.BoolOp) and not all(isinstance(v, (ast.Compare, ast.BoolOp)) or (isinstance(v, ast.UnaryOp) and isinstance(v.op, ast.Not)) for v in e.values):
            # value context: `a or b` is `a if a else b`, `a and b` is `b if a else a` (right-folded)
            vals = list(e.values)
            acc = self.ev(vals[-1], at, depth + 1)
            for v in reversed(vals[:-1]):
                c_ = self.cmp(v, at, depth + 1)
                pv = self.ev(v, at, depth + 1)
                d_ = self.decide(c_) if self.decide is not None else None
                if isinstance(e.op, ast.Or):
                    acc = (pv if d_ else acc) if d_ is not None else ite_atom(c_, pv, acc)
                else:
                    acc = (acc if d_ else pv) if d_ is not None else ite_atom(c_, acc, pv)
            return acc
        if isinstance(e, (ast.Compare, ast.BoolOp)):
            c_ = self.cmp(e, at, depth + 1)
            if self.decide is not None:
                v_ = self.decide(c_)
                if v_ is not None:
                    return Poly.atom("True" if v_ else "False")
            return Poly.atom(cmp_key(c_))
        return Poly.atom(self._generic(e, at, depth))

    def canon(self, e: ast.AST, at: Optional[int] = None, depth: int = 0) -> str:
        return self.ev(e, at, depth).key()

    # ---- names
    def _name(self, e: ast.Name, at, depth) -> Poly:
        for sc in reversed(self.scope):
            if e.id in sc:
                return Poly.atom(sc[e.id] if isinstance(sc, dict) else e.id)
        if e.id in self.bound:
            return Poly.atom(self.bound[e.id])
        if e.id in self.eager:
            return self.eager[e.id]
        if at is None:
            return self._global(e.id, depth) if e.id in self.f.module.constants and e.id not in self.f.params else Poly.atom(e.id)
        defs = self.rd.reaching(e.id, at)
        if not defs:
            return self._global(e.id, depth)     # global / builtin / import
        if len(defs) == 1:
            d = defs[0]
            if d.kind == "param":
                return Poly.atom(e.id)
            if d.kind in ("assign", "inplace") and d.value is not None:
                return self.ev(d.value, d.node, depth + 1)
            if d.kind == "aug" and d.value is not None:
                prev = self._name(ast.Name(id=e.id, ctx=ast.Load()), None, depth + 1) if False else None
                pdefs = self.rd.reaching(e.id, d.node)
                if len(pdefs) == 1 and pdefs[0] is not d:
                    fake = ast.BinOp(left=ast.Name(id=e.id, ctx=ast.Load()), op=d.ast.op, right=d.value)
                    # evaluate left at the aug node (its own reaching defs)
                    l = self._name(ast.Name(id=e.id, ctx=ast.Load()), d.node, depth + 1)
                    r = self.ev(d.value, d.node, depth + 1)
                    return self._binop(d.ast.op, l, r)
                return Poly.atom(f"{e.id}@aug{self.cfg.nodes[d.node].lineno}")
            if d.kind == "for":
                it = self.canon(d.ast.iter, d.node, depth + 1)
                # named by position in the loop target, not by the variable's name (a renamed loop variable is the same value)
                pos = [n for n, _ in _targets(d.ast.target)]
                tag = f"#{pos.index(e.id)}" if e.id in pos and len(pos) > 1 else ""
                if d.value is not None:
                    return Poly.atom(f"item{tag}∈{it}")
                return Poly.atom(item_atom(it, target_path(d.ast.target, e.id), tag))
            if d.kind in ("import", "def"):
                return Poly.atom(e.id)
            if d.kind == "unpack" and isinstance(d.ast, ast.Assign) and len(d.ast.targets) == 1:
                t, v = d.ast.targets[0], d.ast.value
                if isinstance(t, (ast.Tuple, ast.List)) and isinstance(v, ast.Call) and self.tuple_inliner is not None and all(isinstance(x, ast.Name) for x in t.elts):
                    elts = self.tuple_inliner(self, v, len(t.elts), d.node, depth + 1)      # a, b = new_pure_helper(...): element-wise
                    if elts is not None:
                        return elts[[x.id for x in t.elts].index(e.id)]
                if (isinstance(t, (ast.Tuple, ast.List)) and isinstance(v, (ast.Tuple, ast.List)) and len(t.elts) == len(v.elts)
                        and not any(isinstance(x, ast.Starred) for x in t.elts + v.elts)):
                    for te, ve in zip(t.elts, v.elts):
                        if isinstance(te, ast.Name) and te.id == e.id:
                            return self.ev(ve, d.node, depth + 1)
                if isinstance(t, (ast.Tuple, ast.List)):
                    for i, te in enumerate(t.elts):
                        if isinstance(te, ast.Name) and te.id == e.id:
                            return Poly.atom(f"{_paren(self.canon(v, d.node, depth + 1))}[{i}]")       # the id `v[i]` has
            return Poly.atom(f"{e.id}@{d.kind}")
        if len(defs) == 2 and depth < self.max_depth:
            r = self._diamond(e.id, defs, at, depth)
            if r is not None:
                return r
        # several definitions reach and no single `if` explains them: an opaque choice among their values, named by the
        # values (not by the variable's spelling); definitions that feed themselves (loops) are cut by a guard
        key = (e.id, tuple(sorted(id(d) for d in defs)))
        stack = self.__dict__.setdefault("_phi_stack", set())
        kinds = sorted({d.kind for d in defs})
        if key in stack or depth >= self.max_depth - 5:
            return Poly.atom(f"phi~({len(defs)}:{'/'.join(kinds)})")
        stack.add(key)
        try:
            alts = []
            for d in defs:
                if d.kind in ("assign", "inplace") and d.value is not None:
                    alts.append(self.ev(d.value, d.node, depth + 1).key())
                elif d.kind == "aug" and d.value is not None and isinstance(d.ast, ast.AugAssign):
                    alts.append(self._binop(d.ast.op, self._name(ast.Name(id=e.id, ctx=ast.Load()), d.node, depth + 1), self.ev(d.value, d.node, depth + 1)).key())
                elif d.kind == "param":
                    alts.append(e.id)
                else:
                    alts.append(f"<{d.kind}>")
        finally:
            stack.discard(key)
        return Poly.atom("phi(" + " | ".join(sorted(set(alts))) + ")")

    # ---- two definitions joined by one `if`: the value is the conditional expression the statement form spells out
    def _parents(self):
        if getattr(self, "_parent_map", None) is None:
            pm = {}
            for p in ast.walk(self.f.node):
                for field, value in ast.iter_fields(p):
                    if isinstance(value, list):
                        for v in value:
                            if isinstance(v, ast.AST):
                                pm[id(v)] = (p, field)
                    elif isinstance(value, ast.AST):
                        pm[id(value)] = (p, field)
            self._parent_map = pm
        return self._parent_map

    def _enclosing_loop(self, node):
        pm = self._parents()
        cur = node
        while id(cur) in pm:
            cur, field = pm[id(cur)]
            if isinstance(cur, (ast.For, ast.While)) and field == "body":
                return cur
            if isinstance(cur, (ast.FunctionDef, ast.Lambda)):
                return None
        return None

    def _diamond(self, var, defs, at, depth):
        def plain(d):
            if d.kind == "aug":
                return d.value is not None and isinstance(d.ast, ast.AugAssign) and isinstance(d.ast.target, ast.Name)
            return d.kind == "assign" and d.value is not None and isinstance(d.ast, ast.Assign) and len(d.ast.targets) == 1 and isinstance(d.ast.targets[0], ast.Name)
        if not any(plain(d) for d in defs):
            return None
        pm = self._parents()
        use = self.cfg.nodes[at].ast if at is not None and at < len(self.cfg.nodes) else None
        par = [pm.get(id(d.ast)) if plain(d) else (None, None) for d in defs]
        d1, d2 = defs
        (p1, f1), (p2, f2) = par
        test_if = None
        outer_only = None
        if p1 is not None and p1 is p2 and isinstance(p1, ast.If) and {f1, f2} == {"body", "orelse"}:
            test_if = p1
            tv, fv = (d1, d2) if f1 == "body" else (d2, d1)
        else:
            for inner, outer, (pi, fi) in ((d1, d2, par[0]), (d2, d1, par[1])):
                if pi is not None and isinstance(pi, ast.If) and fi in ("body", "orelse"):
                    tn = self.cfg.node_of(pi.test)
                    if tn is None or outer not in self.rd.reaching(var, tn.id) or inner in self.rd.reaching(var, tn.id):
                        continue
                    if outer.kind == "for":
                        if self._enclosing_loop(pi) is not outer.ast:
                            continue
                    elif outer.kind != "param" and self._enclosing_loop(pi) is not self._enclosing_loop(outer.ast):
                        continue
                    if outer.kind == "param" and self._enclosing_loop(pi) is not None:
                        continue
                    test_if = pi
                    outer_only = outer
                    tv, fv = (inner, outer) if fi == "body" else (outer, inner)
                    break
        if test_if is None:
            return None
        tn = self.cfg.node_of(test_if.test)
        if tn is None or at is None or not self.cfg.dominates(tn.id, at) or at == tn.id:
            return None
        if use is not None and self._enclosing_loop(use) is not self._enclosing_loop(test_if) and self._enclosing_loop(test_if) is not None:
            return None
        # the use must come after the whole `if` (inside a branch only one definition would reach)
        c = self.cmp(test_if.test, tn.id, depth + 1)
        def val(d):
            if d is outer_only:
                return self._name(ast.Name(id=var, ctx=ast.Load()), tn.id, depth + 1)      # the value reaching the `if` (one definition there)
            if d.kind == "aug":      # x op= e  is  x = x op e
                return self._binop(d.ast.op, self._name(ast.Name(id=var, ctx=ast.Load()), d.node, depth + 1), self.ev(d.value, d.node, depth + 1))
            return self.ev(d.value, d.node, depth + 1)
        if self.decide is not None:
            v_ = self.decide(c)
            if v_ is not None:
                return val(tv if v_ else fv)
        a = val(tv)
        b = val(fv)
        return ite_atom(c, a, b)

    def _global(self, name: str, depth: int) -> Poly:
        """Module-level numeric constants are folded (e.g. SECONDS_IN_YEAR)."""
        v = self.f.module.constants.get(name)
        consts = self.f.module.constants
        if v is not None and depth < self.max_depth and all(isinstance(n, (ast.Constant, ast.BinOp, ast.UnaryOp, ast.operator, ast.unaryop, ast.expr_context)) or (isinstance(n, ast.Name) and n.id in consts and n.id != name)
                                                            for n in ast.walk(v)) \
                and all(isinstance(n.value, (int, float)) and not isinstance(n.value, bool) for n in ast.walk(v) if isinstance(n, ast.Constant)):
            return self.ev(v, None, depth + 1)
        return Poly.atom(name)

    def _binop(self, op, l: Poly, r: Poly) -> Poly:
        if isinstance(op, ast.Add):
            return l + r
        if isinstance(op, ast.Sub):
            return l - r
        if isinstance(op, ast.Mult):
            return l * r
        if isinstance(op, ast.Div):
            inv = r.inverse()
            return l * inv if inv is not None else l * Poly.atom("(" + r.key() + ")", -1)
        return Poly.atom(f"{type(op).__name__}({l.key()}, {r.key()})")

    # ---- attributes
    def _attr(self, e: ast.Attribute, at, depth) -> Poly:
        base = self.canon(e.value, at, depth + 1)
        k = f"{_paren(base)}.{e.attr}"
        if k in self.state:
            return self.state[k]
        if self.inliner is not None and depth < self.max_depth:
            r = self.inliner(self, e, base, at, depth)
            if r is not None:
                return r
        return Poly.atom(k + (self.suffix(k) if self.suffix else ""))

    def _subscript_key(self, e: ast.Subscript, at, depth) -> str:
        base = self.canon(e.value, at, depth + 1)
        sl = e.slice
        if isinstance(sl, ast.Slice):
            parts = [self.canon(x, at, depth + 1) if x is not None else "" for x in (sl.lower, sl.upper, sl.step)]
            s = ":".join(parts[:2]) + (":" + parts[2] if parts[2] else "")
        elif isinstance(sl, ast.Tuple):
            s = ", ".join(self.canon(x, at, depth + 1) if not isinstance(x, ast.Slice) else ast.unparse(x) for x in sl.elts)
        else:
            s = self.canon(sl, at, depth + 1)
        return f"{_paren(base)}[{s}]"

    # ---- calls
    def _call(self, e: ast.Call, at, depth) -> Poly:
        cv = self.__dict__.get("call_values")
        if cv and id(e) in cv:
            return cv[id(e)]          # value computed by the forward interpreter when it evaluated this (new, in-package) helper in place
        fn = e.func
        if isinstance(fn, ast.Name) and not e.keywords and not e.args and fn.id in ("dict", "list", "tuple") and not self.rd.reaching(fn.id, at if at is not None else self.cfg.entry.id):
            # the empty-container constructors are the empty displays (builtins not rebound locally)
            lit = {"dict": ast.Dict(keys=[], values=[]), "list": ast.List(elts=[], ctx=ast.Load()), "tuple": ast.Tuple(elts=[], ctx=ast.Load())}[fn.id]
            return self.ev(lit, at, depth + 1)
        if isinstance(fn, ast.Name) and fn.id == "getattr" and len(e.args) == 2 and not e.keywords and isinstance(e.args[1], ast.Constant) and isinstance(e.args[1].value, str) and e.args[1].value.isidentifier():
            # getattr(x, "name") is x.name
            return self.ev(ast.copy_location(ast.Attribute(value=e.args[0], attr=e.args[1].value, ctx=ast.Load()), e), at, depth + 1)
        if isinstance(fn, ast.Name) and not e.keywords:
            if fn.id == "abs" and len(e.args) == 1:
                p, _ = self.ev(e.args[0], at, depth + 1).sign_normalised()
                c = p.const_value()
                if c is not None:
                    return Poly.const(abs(c))
                return Poly.atom(f"abs({p.key()})")
            if fn.id in TRANSPARENT_CALLS and len(e.args) == 1:
                return self.ev(e.args[0], at, depth + 1)
            if fn.id in ("sorted", "sum", "min", "max", "any", "all", "set", "frozenset", "list", "tuple") and len(e.args) == 1 and not self.rd.reaching(fn.id, at if at is not None else self.cfg.entry.id):
                # an iterating builtin does not care whether its argument was first copied into a list / tuple: f(list(X)) is f(X)
                k_ = self.ev(e.args[0], at, depth + 1).key()
                for w_ in ("list(", "tuple("):
                    if k_.startswith(w_) and k_.endswith(")"):
                        inner, depth_, ok_ = k_[len(w_):-1], 0, True
                        for ch in inner:
                            depth_ += ch == "("
                            depth_ -= ch == ")"
                            if depth_ < 0:
                                ok_ = False
                                break
                        if ok_ and depth_ == 0 and "," not in _top_level(inner):
                            return Poly.atom(f"{fn.id}({inner})") if fn.id not in ("list", "tuple") or w_ == fn.id + "(" else Poly.atom(f"{fn.id}({inner})")
        if isinstance(fn, ast.Attribute) and fn.attr == "format" and isinstance(fn.value, ast.Constant) and isinstance(fn.value.value, str) and not any(isinstance(a, ast.Starred) for a in e.args) \
                and not any(k.arg is None for k in e.keywords):
            import string
            try:
                fields = list(string.Formatter().parse(fn.value.value))
            except ValueError:
                fields = None
            if fields is not None:
                kw = {k.arg: k.value for k in e.keywords}
                parts, auto, ok_ = [], 0, True
                for lit, name, spec_, conv in fields:
                    if lit:
                        parts.append(repr(lit))
                    if name is None:
                        continue
                    if name == "":
                        name, auto = str(auto), auto + 1
                    src = kw.get(name) if not name.isdigit() else (e.args[int(name)] if int(name) < len(e.args) else None)
                    if src is None:
                        ok_ = False
                        break
                    parts.append(self.canon(src, at, depth + 1) + ("!" + conv if conv else "") + (":" + repr(spec_) if spec_ else ""))
                if ok_:
                    return Poly.atom("fstr(" + ", ".join(parts) + ")")
        if self.inliner is not None and depth < self.max_depth:
            r = self.inliner(self, e, None, at, depth)
            if r is not None:
                return r
        fk = self.canon(fn, at, depth + 1)
        args = [("*" + self.canon(a.value, at, depth + 1)) if isinstance(a, ast.Starred) else self.canon(a, at, depth + 1) for a in e.args]
        kws = sorted((k.arg or "**") + "=" + self.canon(k.value, at, depth + 1) for k in e.keywords)
        return Poly.atom(f"{fk}({', '.join(args + kws)})")

    # ---- generic structure
    def _generic(self, e: ast.AST, at, depth) -> str:
        if isinstance(e, (ast.Tuple, ast.List, ast.Set)):
            o, c = {"Tuple": "()", "List": "[]", "Set": "{}"}[type(e).__name__]
            return o + ", ".join(self.canon(x, at, depth + 1) for x in e.elts) + ("," if isinstance(e, ast.Tuple) and len(e.elts) == 1 else "") + c
        if isinstance(e, ast.Dict):
            return "{" + ", ".join((self.canon(k, at, depth + 1) if k is not None else "**") + ": " + self.canon(v, at, depth + 1) for k, v in zip(e.keys, e.values)) + "}"
        if isinstance(e, (ast.ListComp, ast.SetComp, ast.GeneratorExp, ast.DictComp)):
            bound: Dict[str, str] = {}
            gens = []
            level = len(self.scope)
            first_iter = self.canon(e.generators[0].iter, at, depth + 1)      # evaluated in the enclosing scope (as Python does), before the comprehension's own names exist
            self.scope.append(bound)
            try:
                for gi, g in enumerate(e.generators):
                    it = first_iter if gi == 0 else self.canon(g.iter, at, depth + 1)
                    for n, _ in _targets(g.target):
                        bound.setdefault(n, f"_c{level}_{len(bound)}")
                    # `if a if b` and `if a and b` filter alike (the tests of a filter are taken to be effect-free: order immaterial)
                    cs_ = []
                    for c in g.ifs:
                        k_ = self.cmp(c, at, depth + 1)
                        cs_.extend(k_[1] if k_[0] == "and" else [k_])
                    conds = sorted(cmp_key(k_) for k_ in cs_)
                    tgt = self.canon(g.target, at, depth + 1) if not isinstance(g.target, ast.Name) else bound[g.target.id]
                    gens.append(f"for {tgt} in {it}" + "".join(f" if {c}" for c in conds))
                if isinstance(e, ast.DictComp):
                    elt = self.canon(e.key, at, depth + 1) + ": " + self.canon(e.value, at, depth + 1)
                else:
                    elt = self.canon(e.elt, at, depth + 1)
            finally:
                self.scope.pop()
            kind = {"ListComp": "[]", "SetComp": "{}", "GeneratorExp": "()", "DictComp": "{}"}[type(e).__name__]
            return kind[0] + elt + " " + " ".join(gens) + kind[1]
        if isinstance(e, ast.Lambda):
            level = len(self.scope)
            params = [a.arg for a in e.args.posonlyargs + e.args.args + e.args.kwonlyargs]
            bound = {a: f"_l{level}_{i}" for i, a in enumerate(params)}
            self.scope.append(bound)
            try:
                return "lambda " + ",".join(bound[a] for a in params) + ": " + self.canon(e.body, at, depth + 1)
            finally:
                self.scope.pop()
        if isinstance(e, ast.JoinedStr):
            # the text an f-string produces: literal pieces and formatted values (with their conversion / format spec) in order;
            # `"{a}{b}".format(a=x, b=y)` is given the same form by _call
            parts = []
            for v in e.values:
                if isinstance(v, ast.Constant):
                    parts.append(repr(v.value))
                elif isinstance(v, ast.FormattedValue):
                    spec_ = ("!" + chr(v.conversion) if v.conversion and v.conversion != -1 else "") + (":" + self._generic(v.format_spec, at, depth + 1) if v.format_spec is not None else "")
                    parts.append(self.canon(v.value, at, depth + 1) + spec_)
            return "fstr(" + ", ".join(parts) + ")"
        if isinstance(e, ast.Starred):
            return "*" + self.canon(e.value, at, depth + 1)
        if isinstance(e, ast.Slice):
            return ":".join(self.canon(x, at, depth + 1) if x is not None else "" for x in (e.lower, e.upper, e.step))
        if isinstance(e, ast.NamedExpr):
            return self.canon(e.value, at, depth + 1)
        return ast.unparse(e)

    # ---- comparisons
    def cmp(self, e: ast.AST, at: Optional[int] = None, depth: int = 0, neg: bool = False):
        """Comparison normal form. Returns a nested tuple:
          ('rel', op, polykey, nan_true)   op in '<' '<=' '==' '!='  meaning poly op 0
          ('in', x, y, positive) ('is', x, y, positive) ('truthy', x, positive)
          ('and', [..]) ('or', [..])  (children sorted)
        """
        at = self._node_id(e, at)
        if isinstance(e, ast.Constant) and isinstance(e.value, bool):
            return ("truthy", "True", e.value != neg)        # a literal flag (e.g. a helper's boolean parameter bound at the call)
        if isinstance(e, ast.UnaryOp) and isinstance(e.op, ast.Not):
            return self.cmp(e.operand, at, depth + 1, not neg)
        if isinstance(e, ast.BoolOp):
            kids = [self.cmp(v, at, depth + 1, neg) for v in e.values]
            op = "and" if isinstance(e.op, ast.And) else "or"
            if neg:
                op = "or" if op == "and" else "and"
            flat = []
            for k in kids:
                if k[0] == op:
                    flat.extend(k[1])
                else:
                    flat.append(k)
            return _fold_abs(op, flat)
        if isinstance(e, ast.Compare):
            parts = []
            left = e.left
            for op, right in zip(e.ops, e.comparators):
                parts.append(self._rel(left, op, right, at, depth, neg))
                left = right
            if len(parts) == 1:
                return parts[0]
            return _fold_abs("or" if neg else "and", parts)
        if isinstance(e, ast.Call) and isinstance(e.func, ast.Name) and e.func.id in ("all", "any") and len(e.args) == 1 and isinstance(e.args[0], (ast.List, ast.Tuple)):
            kids = [self.cmp(v, at, depth + 1, neg) for v in e.args[0].elts]
            op = "and" if e.func.id == "all" else "or"
            if neg:
                op = "or" if op == "and" else "and"
            return (op, sorted(kids, key=cmp_key))
        # resolve a local holding a comparison
        if isinstance(e, ast.Name) and at is not None and e.id not in self.eager:
            defs = self.rd.reaching(e.id, at)
            if len(defs) == 1 and defs[0].kind == "assign" and isinstance(defs[0].value, (ast.Compare, ast.BoolOp, ast.UnaryOp)):
                return self.cmp(defs[0].value, defs[0].node, depth + 1, neg)
            if len(defs) == 1 and defs[0].kind == "assign" and isinstance(defs[0].value, ast.Name) and depth < self.max_depth and isinstance(defs[0].ast, ast.Assign) and len(defs[0].ast.targets) == 1 \
                    and isinstance(defs[0].ast.targets[0], ast.Name):
                return self.cmp(defs[0].value, defs[0].node, depth + 1, neg)      # a copy of a local holding a comparison
        return ("truthy", self.canon(e, at, depth + 1), not neg)

    def _rel(self, l, op, r, at, depth, neg):
        if isinstance(op, (ast.In, ast.NotIn)) and isinstance(r, (ast.Tuple, ast.List, ast.Set)) and 1 <= len(r.elts) <= 6 and all(isinstance(x, ast.Constant) and isinstance(x.value, (str, int)) and not isinstance(x.value, bool) for x in r.elts):
            # membership in a short literal collection of strings / integers is the disjunction of the equalities
            eqs = ast.BoolOp(op=ast.Or(), values=[ast.Compare(left=l, ops=[ast.Eq()], comparators=[x]) for x in r.elts]) if len(r.elts) > 1 else ast.Compare(left=l, ops=[ast.Eq()], comparators=[r.elts[0]])
            for n_ in ast.walk(eqs):
                ast.copy_location(n_, l)
            return self.cmp(eqs, at, depth + 1, neg != isinstance(op, ast.NotIn))
        if isinstance(op, (ast.In, ast.NotIn)):
            pos = isinstance(op, ast.In)
            return ("in", self.canon(l, at, depth + 1), self.canon(r, at, depth + 1), pos != neg)
        if isinstance(op, (ast.Is, ast.IsNot)):
            pos = isinstance(op, ast.Is)
            pl_, pr_ = self.ev(l, at, depth + 1), self.ev(r, at, depth + 1)
            for x_, y_ in ((pl_, pr_), (pr_, pl_)):
                if y_.key() == "None" and x_.key() != "None" or (x_.key() == "None" and y_.key() == "None"):
                    nt = none_test(x_)
                    if nt is not None:
                        return nt if pos != neg else cmp_negate(nt)
            a, b = sorted([pl_.key(), pr_.key()])
            return ("is", a, b, pos != neg)
        name = type(op).__name__
        pl = self.ev(l, at, depth + 1)
        pr = self.ev(r, at, depth + 1)
        # bring to  p OP 0
        if name in ("Lt", "LtE"):
            p, strict = pl - pr, name == "Lt"
        elif name in ("Gt", "GtE"):
            p, strict = pr - pl, name == "Gt"
        elif name in ("Eq", "NotEq"):
            p, _ = (pl - pr).sign_normalised()
            eq = (name == "Eq") != neg
            # equality under negation: not(a == b) is true for NaN; a != b is true for NaN as well
            return ("rel", "==" if eq else "!=", p.key(), not eq, p)
        else:
            return ("truthy", self._generic(ast.Compare(left=l, ops=[op], comparators=[r]), at, depth), not neg)
        nan_true = False
        if neg:
            # not (p < 0)  ==  -p <= 0 (for non-NaN), true for NaN
            p, strict = -p, not strict
            nan_true = True
        if _integer_valued(p):
            # over the integers  p < 0  is  p + 1 <= 0  (an index `i - 1 >= 0` is `i > 0`); an integer is never NaN
            if strict:
                p, strict = p + Poly.const(1), False
            nan_true = False
        return ("rel", "<" if strict else "<=", p.key(), nan_true, p)


def _fold_abs(op: str, parts):
    """and(x - e < 0, -x - e < 0) is |x| - e < 0 and or(e - x < 0, e + x < 0) is e - |x| < 0 (also for NaN and for e <= 0):
    a two-sided bound is given the form the one-sided spelling `abs(x) < e` has. Only when x and e share no monomial
    (so that `a <= t <= b` stays a conjunction)."""
    parts = list(parts)
    done = True
    while done:
        done = False
        for i in range(len(parts)):
            for j in range(i + 1, len(parts)):
                a, b = parts[i], parts[j]
                if a[0] != "rel" or b[0] != "rel" or a[1] != b[1] or a[1] not in ("<", "<=") or a[3] != b[3] or len(a) < 5 or len(b) < 5:
                    continue
                p1, p2 = a[4], b[4]
                half = Poly.const(Fraction(1, 2))
                x = (p1 - p2) * half
                e_ = (p1 + p2) * half          # and: p = +-x + e_  with e_ = -e ; or: p = -+x + e_ with e_ = e
                if not x.t or not e_.t or set(x.t) & set(e_.t) or x.is_const():
                    continue
                xs, _ = x.sign_normalised()
                ab = Poly.atom(f"abs({xs.key()})")
                newp = (ab + e_) if op == "and" else (e_ - ab)
                parts[i] = ("rel", a[1], newp.key(), a[3], newp)
                del parts[j]
                done = True
                break
            if done:
                break
    if len(parts) == 1:
        return parts[0]
    return (op, sorted(parts, key=cmp_key))


INT_ATOM = re.compile(r"^(bisect\.)?bisect(_left|_right)?\(|^len\(|^int\(|^(np|numpy)\.searchsorted\(|\.(index|count|get_loc|searchsorted)\([^()]*\)$|^item#\d+∈unpack\(enumerate\(|^item∈range\(")


def _integer_valued(p: "Poly") -> bool:
    """Every coefficient is an integer and every atom is the result of an integer-valued call (bisect, len, int, searchsorted,
    list.index, an enumerate counter, a range item); a constant alone does not count (nothing to normalise)."""
    atoms = p.atoms()
    if not atoms:
        return False
    if any(c.denominator != 1 for c in p.t.values()):
        return False
    return all(INT_ATOM.search(a) is not None for a in atoms)


def _top_level(s: str) -> str:
    """s with everything inside brackets removed (to look for top-level commas)."""
    out, d = [], 0
    for ch in s:
        if ch in "([{":
            d += 1
        elif ch in ")]}":
            d -= 1
        elif d == 0:
            out.append(ch)
    return "".join(out)


def _paren(s: str) -> str:
    if " + " in s or s.startswith("-") or "*" in s and not s.startswith("("):
        return "(" + s + ")"
    return s



def _is_sequence_expr(n: ast.AST) -> bool:
    """Syntactically evident list / tuple / str value: a display, a comprehension, list()/tuple()/sorted(), `m.get(k, <sequence>)`,
    or a concatenation of one. Used to keep `a + b` ordered when it concatenates."""
    if isinstance(n, (ast.List, ast.Tuple, ast.ListComp, ast.JoinedStr)):
        return True
    if isinstance(n, ast.Constant) and isinstance(n.value, (str, bytes)):
        return True
    if isinstance(n, ast.Call):
        if isinstance(n.func, ast.Name) and n.func.id in ("list", "tuple", "sorted"):
            return True
        if isinstance(n.func, ast.Attribute) and n.func.attr == "get" and len(n.args) == 2 and not n.keywords and _is_sequence_expr(n.args[1]):
            return True
    if isinstance(n, ast.BinOp) and isinstance(n.op, ast.Add):
        return _is_sequence_expr(n.left) or _is_sequence_expr(n.right)
    return False

def cmp_key(c) -> str:
    if c[0] in ("and", "or"):
        return c[0] + "(" + ", ".join(cmp_key(k) for k in c[1]) + ")"
    if c[0] == "rel":
        return f"[{c[2]} {c[1]} 0]" + ("~nan" if c[3] else "")
    if c[0] == "in":
        return f"[{c[1]} {'in' if c[3] else 'not in'} {c[2]}]"
    if c[0] == "is":
        return f"[{c[1]} {'is' if c[3] else 'is not'} {c[2]}]"
    if c[0] == "truthy":
        return f"[{'' if c[2] else 'not '}{c[1]}]"
    return str(c)


def ite_atom(c, a: "Poly", b: "Poly") -> "Poly":
    """Value id of `a if c else b`, oriented canonically: `b if not c else a` is the same atom."""
    if c[0] == "truthy" and c[1] == "True":
        return a if c[2] else b          # a condition whose truth is known
    nc = cmp_negate(c)
    if cmp_key(nc) < cmp_key(c):
        c, a, b = nc, b, a
    if a == b:
        return a
    k = "ite(" + cmp_key(c) + ", " + a.key() + ", " + b.key() + ")"
    ITE_PARTS[k] = (c, a, b)
    return Poly.atom(k)


ITE_PARTS: Dict[str, tuple] = {}
_NOT_NONE = re.compile(r"^(\(.*,.*\)|\[.*\]|\{.*\}|-?\d[\d./e+-]*|'.*'|\".*\"|fstr\(.*\)|True|False|(int|float|str|list|dict|tuple|set|abs|len|sorted|bool)\(.*\))$", re.S)


def none_test(p: "Poly"):
    """CMP form of `p is None` when it can be read off the value id: None itself, a display / literal / constructor call
    (never None), or a conditional value whose arms are such (`(a if c else None) is None` is `not c`). Else None."""
    k = p.key()
    if k == "None":
        return ("truthy", "True", True)
    if k in ITE_PARTS:
        c, a, b = ITE_PARTS[k]
        ra, rb = none_test(a), none_test(b)
        if ra is None or rb is None:
            return None
        ta, tb = ra == ("truthy", "True", True), rb == ("truthy", "True", True)
        fa_, fb_ = ra == ("truthy", "True", False), rb == ("truthy", "True", False)
        if ta and tb:
            return ("truthy", "True", True)
        if fa_ and fb_:
            return ("truthy", "True", False)
        if ta and fb_:
            return c
        if fa_ and tb:
            return cmp_negate(c)
        # nested conditionals
        return ("or", sorted([("and", sorted([c, ra], key=cmp_key)), ("and", sorted([cmp_negate(c), rb], key=cmp_key))], key=cmp_key))
    if _NOT_NONE.match(k) and not k.startswith("ite(") and " + " not in k.split("(")[0]:
        return ("truthy", "True", False)
    return None


def cmp_strip_nan(c):
    """Same predicate, NaN flag erased (for rules that do not care)."""
    if c[0] in ("and", "or"):
        return (c[0], sorted([cmp_strip_nan(k) for k in c[1]], key=cmp_key))
    if c[0] == "rel":
        return ("rel", c[1], c[2], False) + tuple(c[4:])
    return c


def cmp_negate(c):
    if c[0] in ("and", "or"):
        return ("or" if c[0] == "and" else "and", sorted([cmp_negate(k) for k in c[1]], key=cmp_key))
    if c[0] == "rel":
        op, key, nan = c[1], c[2], c[3]
        if op in ("==", "!="):
            return ("rel", "!=" if op == "==" else "==", key, not nan) + tuple(c[4:])
        np_ = -c[4]
        return ("rel", "<=" if op == "<" else "<", np_.key(), not nan, np_)
    if c[0] in ("in", "is"):
        return c[:3] + (not c[3],)
    if c[0] == "truthy":
        return ("truthy", c[1], not c[2])
    return c


def cmp_atoms(c) -> List[tuple]:
    if c[0] in ("and", "or"):
        out = []
        for k in c[1]:
            out += cmp_atoms(k)
        return out
    return [c]
