"""Setup command: nothing to build. Prints the interpreter and runs an engine
self-check (loads /repo, resolves calls, builds every CFG)."""
import sys, os, time
sys.path.insert(0, os.path.dirname(os.path.dirname(os.path.abspath(__file__))))
from sa.analysis import Analysis

t = time.time()
an = Analysis()
res, tot = an.call_stats()
n = 0
for f in an.functions():
    an.fa(f)
    n += 1
print(f"python {sys.version.split()[0]}; modules={len(an.prog.modules)} classes={len(an.prog.classes)} functions={n} "
      f"call sites resolved {res}/{tot}; {time.time()-t:.2f}s")
