"""Analysis context: per-function CFG / reaching defs / value ids, effects,
call graph, guards. Shared by all rule files."""
from __future__ import annotations
import ast
import os
from typing import Dict, List, Optional, Tuple, Set, Iterable, Callable
from .model import Program, FuncInfo, ClassInfo, Module, AnalysisError, enclosing_function, parents
from .resolve import Resolver, walk_function
from .cfg import CFG, Node
from .dataflow import ReachingDefs, Sym, Poly, cmp_key, cmp_strip_nan, cmp_atoms

MUTATORS = {"append", "appendleft", "extend", "extendleft", "pop", "popleft", "popitem", "clear", "remove",
            "insert", "sort", "reverse", "update", "setdefault", "add", "discard", "rotate", "__setitem__",
            "__delitem__", "fill", "resize", "put"}


class Effect:
    __slots__ = ("kind", "owner", "attr", "node", "func", "via", "sub")

    def __init__(self, kind: str, owner: str, attr: str, node: ast.AST, func: FuncInfo, sub: Optional[ast.AST] = None):
        self.kind = kind      # R W M (mutating call) D (delete)
        self.owner = owner    # class name or '?' or 'class:<Name>' for class-object stores
        self.attr = attr
        self.node = node
        self.func = func
        self.sub = sub        # subscript key expr when the access is x.attr[key]

    @property
    def loc(self) -> str:
        return f"{self.func.module.relpath}:{getattr(self.node, 'lineno', 0)}"

    def __repr__(self):
        return f"{self.kind}:{self.owner}.{self.attr}@{self.loc}"


class FuncAnalysis:
    def __init__(self, an: "Analysis", f: FuncInfo):
        self.an = an
        self.f = f
        self.cfg = CFG(f.node)
        self.rd = ReachingDefs(f, self.cfg)
        self._sym = Sym(f, self.cfg, self.rd, inliner=an.inliner)
        self._sym.tuple_inliner = an.tuple_elements
        self._effects: Optional[List[Effect]] = None
        self.touched = False      # a rule looked at this function's values / sites (not only at its effect summary)

    @property
    def sym(self):
        self.touched = True
        return self._sym

    # -------------------------------------------------------------- sites
    def node_of(self, astnode: ast.AST) -> Node:
        self.touched = True
        n = self.cfg.node_of(astnode)
        if n is None:
            # statement-level nodes (Continue/Break etc.)
            for c in self.cfg.nodes:
                if c.ast is astnode or c.stmt is astnode:
                    return c
            raise AnalysisError(f"no CFG node for {ast.unparse(astnode)[:50]} in {self.f.qual}")
        return n

    def calls(self) -> List[Tuple[ast.AST, List[FuncInfo], Optional[str], str]]:
        return self.an.res.calls_in(self.f)

    def calls_to(self, *shorts: str, ext: Iterable[str] = ()) -> List[ast.AST]:
        """Call sites (incl. property loads / subscripts) whose resolved targets
        include one of the named functions (Class.method) or ext dotted names."""
        self.touched = True
        out = []
        exts = tuple(ext)
        for node, tg, e, kind in self.calls():
            if any(g.short in shorts for g in tg):
                out.append(node)
            elif e is not None and exts and any(e == x or e.endswith("." + x) for x in exts):
                out.append(node)
            elif kind == "call" and len(tg) == 1 and id(node) not in self.an.res.byname and self.an.is_new_function(tg[0]) and self.an.helper_calls(tg[0], shorts, exts):
                out.append(node)          # a new helper that (transitively) makes the call: the call site of the helper stands for it
        out.sort(key=lambda n: (n.lineno, n.col_offset))
        return out

    def calls_named(self, name: str) -> List[ast.Call]:
        """Call sites by callee attribute/function name (syntactic)."""
        self.touched = True
        out = []
        for node in walk_function(self.f.node):
            if isinstance(node, ast.Call):
                fn = node.func
                if (isinstance(fn, ast.Attribute) and fn.attr == name) or (isinstance(fn, ast.Name) and fn.id == name):
                    out.append(node)
        out.sort(key=lambda n: (n.lineno, n.col_offset))
        return out

    def effects(self) -> List[Effect]:
        """Direct effects, plus - at the call site - the effects of helpers that are new to the reviewed inventory (so that
        moving a block into a new helper leaves the caller's effect summary, and every ordering rule reading it, unchanged)."""
        if self._effects is None:
            self._effects = self.an._direct_effects(self)
            seen = set()
            for node, g in self.new_helper_calls():
                for e in self.an.helper_effects(g):
                    k = (e.kind, e.owner, e.attr, id(node))
                    if k in seen:
                        continue
                    seen.add(k)
                    lifted = Effect(e.kind, e.owner, e.attr, node, self.f, e.sub)
                    self._effects.append(lifted)
        return self._effects

    def new_helper_calls(self) -> List[Tuple[ast.AST, FuncInfo]]:
        """(call node, callee) for calls of this function that resolve to exactly one in-package function new to the inventory."""
        out = []
        for node, tg, e, kind in self.calls():
            if kind != "call" or id(node) in self.an.res.byname or len(tg) != 1:
                continue
            if self.an.is_new_function(tg[0]) and tg[0].qual != self.f.qual:
                out.append((node, tg[0]))
        return out

    def writes(self, attr: str, owner: Optional[str] = None, kinds: str = "WMD") -> List[Effect]:
        return [e for e in self.effects() if e.attr == attr and e.kind in kinds and (owner is None or e.owner in (owner, "?") or self.an.owner_matches(e.owner, owner))]

    def reads(self, attr: str, owner: Optional[str] = None) -> List[Effect]:
        return [e for e in self.effects() if e.attr == attr and e.kind == "R" and (owner is None or e.owner in (owner, "?") or self.an.owner_matches(e.owner, owner))]

    # ------------------------------------------------------------- ordering
    def dominates(self, a: ast.AST, b: ast.AST) -> bool:
        na, nb = self.node_of(a), self.node_of(b)
        if na.id == nb.id:
            return _pos(a) <= _pos(b)
        return self.cfg.dominates(na.id, nb.id)

    def all_paths_to_pass(self, target: ast.AST, via: Iterable[ast.AST]) -> bool:
        t = self.node_of(target)
        vs = {self.node_of(v).id for v in via}
        if t.id in vs:
            return any(_pos(v) <= _pos(target) for v in via if self.node_of(v).id == t.id)
        return self.cfg.every_path_to_passes(t.id, vs)

    def all_paths_from_pass(self, src: ast.AST, via: Iterable[ast.AST]) -> bool:
        """Every path from src to the normal exit passes one of via."""
        s = self.node_of(src)
        vs = {self.node_of(v).id for v in via}
        if s.id in vs and any(_pos(v) > _pos(src) for v in via if self.node_of(v).id == s.id):
            return True
        vs.discard(s.id)
        return self.cfg.exit.id not in self.cfg.reachable(s.id, avoid=vs)

    def reachable_from(self, a: ast.AST, b: ast.AST) -> bool:
        na, nb = self.node_of(a), self.node_of(b)
        if na.id == nb.id:
            return _pos(a) <= _pos(b)
        return nb.id in self.cfg.reachable(na.id)

    # --------------------------------------------------------------- guards
    def tests(self) -> List[Node]:
        return [n for n in self.cfg.nodes if n.kind == "test"]

    def test_cmp(self, n: Node):
        return self.sym.cmp(n.ast, n.id)

    def guards(self, target: ast.AST) -> List[Tuple[Node, str]]:
        """[(test node, 'T'|'F')] such that every path from entry to target
        traverses that branch edge of the test."""
        t = self.node_of(target)
        out = []
        for n in self.tests():
            if n.id == t.id:
                continue
            for lab in ("T", "F"):
                succs = [y for y, l in self.cfg.succ[n.id] if l == lab]
                if not succs:
                    continue
                if self._edge_dominates(n.id, lab, t.id):
                    out.append((n, lab))
        return out

    def _edge_dominates(self, src: int, lab: str, target: int) -> bool:
        seen = {self.cfg.entry.id}
        stack = [self.cfg.entry.id]
        while stack:
            x = stack.pop()
            for y, l in self.cfg.succ[x]:
                if x == src and l == lab:
                    continue
                if y not in seen:
                    seen.add(y)
                    stack.append(y)
        return target not in seen and target in self.cfg.reachable()

    def guard_predicates(self, target: ast.AST) -> List[tuple]:
        """Atomic predicates (CMP normal form, NaN flag stripped) known to hold
        at target: from dominating branch edges. A conjunction taken on its
        true edge contributes each conjunct; a disjunction on its false edge
        contributes each negated disjunct."""
        out = []
        for n, lab in self.guards(target):
            c = self.sym.cmp(n.ast, n.id, neg=(lab == "F"))
            c = cmp_strip_nan(c)
            if c[0] == "and":
                out.extend(c[1])
            else:
                out.append(c)
        return out

    def syntactic_guards(self, target: ast.AST) -> List[tuple]:
        """Predicates from the If statements that syntactically enclose target
        (early-exit filters before it are not included)."""
        out = []
        child = target
        for p in parents(target):
            if p is self.f.node:
                break
            if isinstance(p, ast.If):
                in_body = any(child is s for s in p.body)
                in_else = any(child is s for s in p.orelse)
                # `if c: ...; return` + else-branch is the early-exit form `if c: ...; return` followed by the rest: the same
                # statements, so the same (absence of) syntactic guard - an arm whose other arm always leaves is not "guarded"
                other = p.orelse if in_body else p.body
                if (in_body or in_else) and other and isinstance(other[-1], (ast.Return, ast.Raise, ast.Continue, ast.Break)) \
                        and not (in_body and isinstance(p.body[-1], (ast.Return, ast.Raise, ast.Continue, ast.Break))):
                    child = p
                    continue
                if in_body or in_else:
                    n = self.cfg.node_of(p.test)
                    c = self.sym.cmp(p.test, n.id if n else None, neg=in_else)
                    c = cmp_strip_nan(c)
                    if c[0] == "and":
                        out.extend(c[1])
                    else:
                        out.append(c)
            child = p
        return out

    def path_guards(self, target: ast.AST) -> List[tuple]:
        """Predicates under which target is reached, read off the statement structure: the tests of the enclosing `if`s AND the
        negated tests of the guard clauses before it in the enclosing blocks (`if c: continue / return / raise / break` followed
        by the rest is `if not c: <rest>`), up to the enclosing loop body or the function. Conjunctions are split."""
        out = []
        child = target

        def add(test, neg):
            n = self.cfg.node_of(test)
            c = cmp_strip_nan(self.sym.cmp(test, n.id if n else None, neg=neg))
            out.extend(c[1] if c[0] == "and" else [c])
        for p in parents(target):
            for field in ("body", "orelse", "finalbody"):
                blk = getattr(p, field, None)
                if isinstance(blk, list) and any(child is s_ for s_ in blk):
                    for s_ in blk:
                        if s_ is child:
                            break
                        if isinstance(s_, ast.If) and not s_.orelse and s_.body and isinstance(s_.body[-1], (ast.Return, ast.Raise, ast.Continue, ast.Break)):
                            add(s_.test, True)
                        elif isinstance(s_, ast.If) and s_.orelse and isinstance(s_.orelse[-1], (ast.Return, ast.Raise, ast.Continue, ast.Break)) and not isinstance(s_.body[-1], (ast.Return, ast.Raise, ast.Continue, ast.Break)):
                            add(s_.test, False)
            if p is self.f.node:
                break
            if isinstance(p, ast.If):
                if any(child is s_ for s_ in p.body):
                    add(p.test, False)
                elif any(child is s_ for s_ in p.orelse):
                    add(p.test, True)
            if isinstance(p, (ast.For, ast.While)) and any(child is s_ for s_ in p.body):
                child = p
                break
            child = p
        seen, res = set(), []
        for c in out:
            k = cmp_key(c)
            if k not in seen:
                seen.add(k)
                res.append(c)
        return res

    def seg(self, node: ast.AST) -> str:
        return self.f.module.seg(node)

    def loc(self, node: ast.AST) -> str:
        return f"{self.f.module.relpath}:{getattr(node, 'lineno', self.f.node.lineno)}"


def _pos(n: ast.AST):
    return (getattr(n, "lineno", 0), getattr(n, "col_offset", 0))


def _straight_line_return(tg: FuncInfo):
    """The returned expression of a function whose body is straight-line: `pass`, plain assignments to fresh locals
    (expanded as value ids by the evaluator) and one final `return expr`. None otherwise."""
    body = [s for s in tg.body_without_docstring() if not isinstance(s, (ast.Pass, ast.Assert)) and not (isinstance(s, ast.Expr) and isinstance(s.value, ast.Constant))]
    if not body or not isinstance(body[-1], ast.Return) or body[-1].value is None:
        return None
    params = set(tg.params)
    for s in body[:-1]:
        if not (isinstance(s, ast.Assign) and len(s.targets) == 1 and isinstance(s.targets[0], ast.Name) and s.targets[0].id not in params):
            return None
    return body[-1].value


class Analysis:
    def __init__(self, root: str = None, fixtures: bool = True):
        extra = []
        fixdir = os.path.join(os.path.dirname(os.path.dirname(os.path.abspath(__file__))), "selftest", "fixtures")
        if fixtures and os.path.isdir(fixdir):
            for fn in sorted(os.listdir(fixdir)):
                if fn.endswith(".py"):
                    extra.append(("_fixture_" + fn[:-3], os.path.join(fixdir, fn)))
        self.prog = Program(root, extra)
        self.res = Resolver(self.prog)
        self._fa: Dict[str, FuncAnalysis] = {}
        self.roots: Set[str] = set()
        self._known = None
        self._helper_stack: List[str] = []
        self._trans: Optional[Dict[str, Set[str]]] = None
        self._callees: Optional[Dict[str, Set[str]]] = None
        self.stats = {"functions_analysed": 0}

    # --------------------------------------------------------------- access
    def fa(self, short_or_f) -> FuncAnalysis:
        f = short_or_f if isinstance(short_or_f, FuncInfo) else self.prog.func(short_or_f)
        if not isinstance(short_or_f, FuncInfo):
            self.roots.add(f.qual)      # functions a rule asked for by name: the property's own territory
        if f.qual not in self._fa:
            self._fa[f.qual] = FuncAnalysis(self, f)
            self.stats["functions_analysed"] += 1
        return self._fa[f.qual]

    def scope(self):
        """(functions, class names) the rules of this run depend on: the
        functions the rules named, the classes owning those functions and the classes whose attributes they touch."""
        funcs = set(self.roots) | set(self.prog.requested) | {q for q, a in self._fa.items() if a.touched}     # direct: the over-approximate call graph (CHA, by-name) reaches most of the package from anywhere
        classes = set()
        for q in funcs:
            g = self.prog.functions.get(q)
            if g is None or g.module.name.startswith("_fixture"):
                continue
            if g.cls is not None:
                classes.add(g.cls.name)
            for e in self.fa(g).effects():
                if e.owner and e.owner != "?":
                    classes.add(e.owner.split(":")[-1])
        return funcs, classes

    def functions(self, include_fixtures: bool = False) -> List[FuncInfo]:
        return [f for f in self.prog.functions.values() if include_fixtures or not f.module.name.startswith("_fixture")]

    def owner_matches(self, owner: str, want: str) -> bool:
        """owner class equals want, or is a sub/superclass of it."""
        if owner == want:
            return True
        a = self.prog.class_by_name.get(owner, [])
        b = self.prog.class_by_name.get(want, [])
        for x in a:
            for y in b:
                if self.prog.is_subclass(x, y) or self.prog.is_subclass(y, x):
                    return True
        return False

    # ------------------------------------------------------------- inlining
    def inliner(self, sym: Sym, e: ast.AST, base_key: Optional[str], at, depth) -> Optional[Poly]:
        """Inline trivial in-package properties / methods (body = single
        `return expr`), binding self (and parameters) to canonical strings."""
        f = sym.f
        if isinstance(e, ast.Attribute):
            tg = self._inline_target(e.value, e.attr, f, want_property=True)
            if tg is None:
                return None
            rv = _straight_line_return(tg)
            if rv is None:
                return self._helper_value(sym, tg, {tg.params[0]: base_key}, depth) if self.is_new_function(tg) else None
            return self._inline(sym, tg, {tg.params[0]: base_key}, rv, depth)
        if isinstance(e, ast.Call) and isinstance(e.func, ast.Attribute):
            tg = self._inline_target(e.func.value, e.func.attr, f, want_property=False)
            if tg is None or tg.is_static or tg.is_classmethod:
                return None
            rv = _straight_line_return(tg)
            if rv is None and not self.is_new_function(tg):
                return None
            if any(isinstance(a, ast.Starred) for a in e.args) or any(k.arg is None for k in e.keywords):
                return None
            params = tg.params
            if len(e.args) > len(params) - 1:
                return None
            binding = {params[0]: sym.canon(e.func.value, at, depth + 1)}
            for p, a in zip(params[1:], e.args):
                binding[p] = sym.ev(a, at, depth + 1)
            for k in e.keywords:
                if k.arg not in params or k.arg in binding:
                    return None
                binding[k.arg] = sym.ev(k.value, at, depth + 1)
            for p in params[1:]:
                if p in binding:
                    continue
                d = tg.param_default(p)
                if d is None:
                    return None
                binding[p] = sym.ev(d, None, depth + 1)
            if rv is None:
                return self._helper_value(sym, tg, binding, depth)
            return self._inline(sym, tg, binding, rv, depth)
        if isinstance(e, ast.Call) and isinstance(e.func, ast.Name):
            # a new module-level helper function
            r = self.prog.resolve_name_expr(f.module, e.func)
            if isinstance(r, FuncInfo) and r.cls is None and self.is_new_function(r) and not any(isinstance(a, ast.Starred) for a in e.args) and not any(k.arg is None for k in e.keywords):
                params = r.params
                if len(e.args) > len(params):
                    return None
                binding = {}
                for p, a in zip(params, e.args):
                    binding[p] = sym.ev(a, at, depth + 1)
                for k in e.keywords:
                    if k.arg not in params or k.arg in binding:
                        return None
                    binding[k.arg] = sym.ev(k.value, at, depth + 1)
                for p in params:
                    if p not in binding:
                        d = r.param_default(p)
                        if d is None:
                            return None
                        binding[p] = sym.ev(d, None, depth + 1)
                rv = _straight_line_return(r)
                if rv is not None:
                    return self._inline(sym, r, binding, rv, depth)
                return self._helper_value(sym, r, binding, depth)
        return None

    # ----------------------------------------------------- helpers new to the reviewed inventory
    def helper_effects(self, g: FuncInfo, _stack=()) -> List[Effect]:
        """Effects of a new helper, including those of the new helpers it calls in turn."""
        if g.qual in _stack or len(_stack) > 4:
            return []
        fa = self.fa(g)
        out = list(self._direct_effects(fa))
        for node, h in fa.new_helper_calls():
            out.extend(self.helper_effects(h, _stack + (g.qual,)))
        return out

    def helper_calls(self, g: FuncInfo, shorts, exts=(), _stack=()) -> bool:
        if g.qual in _stack or len(_stack) > 4:
            return False
        for node, tg, e, kind in self.res.calls_in(g):
            if any(t.short in shorts for t in tg):
                return True
            if e is not None and exts and any(e == x or e.endswith("." + x) for x in exts):
                return True
            if kind == "call" and len(tg) == 1 and id(node) not in self.res.byname and self.is_new_function(tg[0]) and self.helper_calls(tg[0], shorts, exts, _stack + (g.qual,)):
                return True
        return False

    def attributed(self, f: FuncInfo, _stack=()) -> List[FuncInfo]:
        """The reviewed functions an access made by f is attributed to for who-may-write / who-may-call rules: f itself when it
        belongs to the inventory; for a new helper, the inventory functions that reach it through direct calls (a helper nobody
        calls directly stands for itself)."""
        if not self.is_new_function(f) or f.qual in _stack or len(_stack) > 4:
            return [f]
        out = []
        for q in sorted(self.prog.expanded_into.get(f.qual, ())):      # call sites that were expanded in place (sa/normalise.py)
            h = self.prog.functions.get(q)
            if h is not None:
                out.extend(self.attributed(h, _stack + (f.qual,)))
        for h in self.prog.functions.values():
            if h.qual == f.qual:
                continue
            for node, tg, e, kind in self.res.calls_in(h):
                if kind == "call" and len(tg) == 1 and tg[0].qual == f.qual and id(node) not in self.res.byname:
                    out.extend(self.attributed(h, _stack + (f.qual,)))
                    break
        seen, res = set(), []
        for x in out:
            if x.qual not in seen:
                seen.add(x.qual)
                res.append(x)
        return res or [f]

    def is_new_function(self, g: FuncInfo) -> bool:
        """A function that is not in the inventory of the reviewed package (sa/known_functions.json): a helper introduced by
        an edit. Such helpers are evaluated in place (their value / effects seen through), so that extracting or inlining a
        helper does not change what the rules read; functions of the inventory keep their reviewed treatment."""
        if self._known is None:
            import json
            with open(os.path.join(os.path.dirname(os.path.abspath(__file__)), "known_functions.json")) as fh:
                self._known = set(json.load(fh))
        return g.qual not in self._known and not g.module.name.startswith("_fixture")

    def tuple_elements(self, sym: Sym, call: ast.Call, n: int, at, depth: int) -> Optional[List[Poly]]:
        """`a, b = helper(...)` for a side-effect-free helper new to the inventory whose body is straight-line and ends in
        `return (x, y)`: the element values, each evaluated in place."""
        f = sym.f
        tg = None
        binding = None
        if isinstance(call.func, ast.Attribute):
            tg = self._inline_target(call.func.value, call.func.attr, f, want_property=False)
            if tg is not None and not tg.is_static and not tg.is_classmethod:
                binding = {tg.params[0]: sym.canon(call.func.value, at, depth + 1)}
                params = tg.params[1:]
        elif isinstance(call.func, ast.Name):
            r = self.prog.resolve_name_expr(f.module, call.func)
            if isinstance(r, FuncInfo) and r.cls is None:
                tg, binding, params = r, {}, r.params
        if tg is None or binding is None or not self.is_new_function(tg) or any(e.kind in "WMD" for e in self.fa(tg).effects()):
            return None
        rv = _straight_line_return(tg)
        if not isinstance(rv, ast.Tuple) or len(rv.elts) != n or any(isinstance(x, ast.Starred) for x in rv.elts):
            return None
        if any(isinstance(a, ast.Starred) for a in call.args) or any(k.arg is None for k in call.keywords) or len(call.args) > len(params):
            return None
        for p, a in zip(params, call.args):
            binding[p] = sym.ev(a, at, depth + 1)
        for k in call.keywords:
            if k.arg not in params or k.arg in binding:
                return None
            binding[k.arg] = sym.ev(k.value, at, depth + 1)
        for p in params:
            if p not in binding:
                d = tg.param_default(p)
                if d is None:
                    return None
                binding[p] = sym.ev(d, None, depth + 1)
        return [self._inline(sym, tg, binding, x, depth) for x in rv.elts]

    def _helper_value(self, sym: Sym, tg: FuncInfo, binding: dict, depth: int) -> Optional[Poly]:
        """Value returned by a new, side-effect-free helper with control flow: its returns, folded into nested conditional
        expressions over their path conditions (so `def side(q): if q >= 0: return bid` / `return ask` is `bid if q >= 0 else ask`)."""
        if depth > sym.max_depth - 10 or tg.qual in self._helper_stack or len(self._helper_stack) > 3:
            return None
        if any(isinstance(n, (ast.Yield, ast.YieldFrom, ast.Await, ast.Try, ast.While, ast.With)) for n in ast.walk(tg.node)):
            return None
        if any(e.kind in "WMD" for e in self.fa(tg).effects()):
            return None
        from .forward import Forward
        from .dataflow import ite_atom, cmp_negate, cmp_key
        self._helper_stack.append(tg.qual)
        try:
            fw = Forward(self, self.fa(tg), call_effects=False)
            for k, v in binding.items():
                fw.st.locals[k] = v if isinstance(v, Poly) else Poly.atom(v)
            fw.st.slots.update(sym.state)
            fw.sym.decide = sym.decide
            fw.run()
            cases = [(v, list(st.conds)) for r, v, st in fw.returns if v is not None]
            if fw.st.alive or not cases or len(cases) != len(fw.returns):
                return None          # may fall through / return None: not a plain value
            val = cases[-1][0]
            seen_neg = set()
            for v, conds in reversed(cases[:-1]):
                pass
            # fold from the last return backwards; the decisive conditions of return i are its path conditions minus the negations of earlier decisive ones
            decisive = []
            earlier = set()
            for v, conds in cases:
                d = [c for c in conds if cmp_key(c) not in earlier]
                decisive.append(d)
                for c in d:
                    earlier.add(cmp_key(cmp_negate(c)))
            for (v, conds), d in zip(reversed(cases[:-1]), reversed(decisive[:-1])):
                if not d:
                    return None
                c = d[0] if len(d) == 1 else ("and", sorted(d, key=cmp_key))
                val = ite_atom(c, v, val)
            return val
        finally:
            self._helper_stack.pop()

    def _inline_target(self, recv: ast.AST, name: str, f: FuncInfo, want_property: bool) -> Optional[FuncInfo]:
        """The single implementation every possible receiver runs: the static
        lookup is concrete and no subclass overrides it (method or class attr)."""
        t = self.res.type_of(recv, f)
        cl = [a[1] for a in t if a[0] == "cls"]
        if len(cl) != 1 or len(t) != 1:
            return None
        c = cl[0]
        g = self.prog.lookup_method(c, name)
        if g is None or g.is_abstract or g.is_property != want_property:
            return None
        for s in self.prog.subclasses(c):
            if name in s.methods or name in s.class_attrs:
                return None
        # a class attribute shadowing it closer in the MRO
        for k in self.prog.mro(c):
            if name in k.class_attrs and k is not g.cls:
                return None
            if k is g.cls:
                break
        return g

    def _inline(self, sym: Sym, tg: FuncInfo, binding: dict, expr: ast.AST, depth: int) -> Poly:
        sub = Sym(tg, self.fa(tg).cfg, self.fa(tg).rd, inliner=self.inliner, max_depth=sym.max_depth)
        sub.tuple_inliner = self.tuple_elements
        for k, v in binding.items():
            if isinstance(v, Poly):
                sub.eager[k] = v
            else:
                sub.bound[k] = v
        sub.state = sym.state
        return sub.ev(expr, None, depth + 2)

    # -------------------------------------------------------------- effects
    def _owner_of(self, base: ast.AST, f: FuncInfo) -> str:
        t = self.res.type_of(base, f)
        names = []
        for alt in t:
            if alt[0] == "cls":
                names.append(alt[1].name)
            elif alt[0] == "type":
                names.append("class:" + alt[1].name)
            elif alt[0] == "module":
                names.append("module:" + alt[1].name)
        if len(names) == 1:
            return names[0]
        if names:
            return "|".join(sorted(set(names)))
        return "?"

    def _direct_effects(self, fa: FuncAnalysis) -> List[Effect]:
        f = fa.f
        out: List[Effect] = []
        for node in walk_function(f.node):
            if isinstance(node, ast.Attribute):
                owner = self._owner_of(node.value, f)
                par = getattr(node, "_parent", None)
                if isinstance(node.ctx, ast.Store):
                    out.append(Effect("W", owner, node.attr, node, f))
                elif isinstance(node.ctx, ast.Del):
                    out.append(Effect("D", owner, node.attr, node, f))
                else:
                    # x.attr[...] = v  /  x.attr[...] += v / del x.attr[...]
                    if isinstance(par, ast.Subscript) and par.value is node and isinstance(par.ctx, (ast.Store, ast.Del)):
                        out.append(Effect("W" if isinstance(par.ctx, ast.Store) else "D", owner, node.attr, par, f, sub=par.slice))
                        if isinstance(getattr(par, "_parent", None), ast.AugAssign):
                            out.append(Effect("R", owner, node.attr, par, f, sub=par.slice))
                    elif isinstance(par, ast.Attribute) and par.value is node and isinstance(getattr(par, "_parent", None), ast.Call) and par._parent.func is par and par.attr in MUTATORS:
                        out.append(Effect("M", owner, node.attr, par._parent, f))
                        out.append(Effect("R", owner, node.attr, node, f))
                    elif (isinstance(par, ast.Subscript) and par.value is node and isinstance(getattr(par, "_parent", None), ast.Attribute)
                          and isinstance(getattr(par._parent, "_parent", None), ast.Call) and par._parent._parent.func is par._parent and par._parent.attr in MUTATORS):
                        # x.attr[k].append(v)
                        out.append(Effect("M", owner, node.attr, par._parent._parent, f, sub=par.slice))
                        out.append(Effect("R", owner, node.attr, node, f, sub=par.slice))
                    else:
                        sub = par.slice if isinstance(par, ast.Subscript) and par.value is node else None
                        out.append(Effect("R", owner, node.attr, node, f, sub=sub))
                    if isinstance(par, ast.AugAssign) and par.target is node:
                        pass
                if isinstance(node.ctx, ast.Store) and isinstance(par, ast.AugAssign) and par.target is node:
                    out.append(Effect("R", owner, node.attr, node, f))
            elif isinstance(node, ast.Call) and isinstance(node.func, ast.Name) and node.func.id in ("setattr", "delattr") and len(node.args) >= 2:
                owner = self._owner_of(node.args[0], f)
                attr = node.args[1].value if isinstance(node.args[1], ast.Constant) else "*"
                out.append(Effect("W", owner, str(attr), node, f))
        return out

    # ----------------------------------------------------------- call graph
    def callees(self) -> Dict[str, Set[str]]:
        if self._callees is None:
            cg: Dict[str, Set[str]] = {}
            for f in self.prog.functions.values():
                s = set()
                for node, tg, ext, kind in self.res.calls_in(f):
                    if id(node) in self.res.byname:
                        continue
                    for g in tg:
                        s.add(g.qual)
                cg[f.qual] = s
            self._callees = cg
        return self._callees

    def callers_of(self, short: str, include_byname: bool = True) -> List[Tuple[FuncInfo, ast.AST]]:
        out = []
        for f in self.prog.functions.values():
            for node, tg, ext, kind in self.res.calls_in(f):
                if any(g.short == short for g in tg):
                    if not include_byname and id(node) in self.res.byname:
                        continue
                    out.append((f, node))
        return out

    def reach(self, start_qual: str, avoid: Set[str] = frozenset()) -> Set[str]:
        cg = self.callees()
        seen = {start_qual}
        stack = [start_qual]
        while stack:
            x = stack.pop()
            for y in cg.get(x, ()):
                if y not in seen and y not in avoid:
                    seen.add(y)
                    stack.append(y)
        return seen

    def transitive_effects(self, f: FuncInfo, avoid: Set[str] = frozenset()) -> List[Effect]:
        out = []
        for q in sorted(self.reach(f.qual, avoid)):
            g = self.prog.functions[q]
            out.extend(self.fa(g).effects())
        return out

    def call_stats(self) -> Tuple[int, int]:
        tot = res = 0
        for f in self.functions():
            for node, tg, ext, kind in self.res.calls_in(f):
                if kind != "call":
                    continue
                tot += 1
                if tg or ext:
                    res += 1
        return res, tot


def _unique_impl(tgs: List[FuncInfo]) -> Optional[FuncInfo]:
    """If all targets that are not abstract agree on one function, return it."""
    impl = [g for g in tgs if not g.is_abstract and not g.is_trivially_empty()]
    if len(impl) == 1:
        return impl[0]
    return None
