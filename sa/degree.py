"""Homogeneity-degree analysis for tradingenv/metrics.py (DIM with one unit per
level series). A value has degree d in unit U if multiplying the level series
U by c > 0 multiplies the value by c**d. A metric whose result has degree 0 in
every unit is scale-invariant. Proof relative to the frozen transfer table of
pandas/numpy operations below. Nothing is executed."""
from __future__ import annotations
import ast
from fractions import Fraction
from typing import Dict, Optional, Tuple, List

Deg = Dict[str, Fraction]      # unit -> exponent ; {} = scale-free


class DegError(Exception):
    def __init__(self, msg, node=None):
        super().__init__(msg)
        self.node = node


class V:
    """Abstract value: kind in num(deg) | log(unit) | lit | idx | bool | other"""
    __slots__ = ("kind", "deg", "unit")

    def __init__(self, kind, deg=None, unit=None):
        self.kind = kind
        self.deg = dict(deg or {})
        self.unit = unit

    def __repr__(self):
        if self.kind == "num":
            return "deg" + str({k: str(v) for k, v in self.deg.items()})
        return self.kind + (f"({self.unit})" if self.unit else "")


LIT = V("lit")
IDX = V("idx")
BOOL = V("bool")
FREE = V("num", {})


def _clean(d: Deg) -> Deg:
    return {k: v for k, v in d.items() if v != 0}


def mul(a: V, b: V, sign=1) -> V:
    if a.kind in ("lit", "idx", "bool"):
        a = FREE
    if b.kind in ("lit", "idx", "bool"):
        b = FREE
    if a.kind != "num" or b.kind != "num":
        raise DegError(f"product/quotient involving {a} and {b}")
    d = dict(a.deg)
    for k, v in b.deg.items():
        d[k] = d.get(k, 0) + sign * v
    return V("num", _clean(d))


def add(a: V, b: V, node=None) -> V:
    if a.kind in ("lit", "idx", "bool") and b.kind in ("lit", "idx", "bool"):
        return FREE
    for x, y in ((a, b), (b, a)):
        if x.kind in ("lit", "idx", "bool"):
            if y.kind == "num" and not y.deg:
                return y
            if y.kind == "num":
                raise DegError(f"a constant is added to / subtracted from a value of degree {y}: not homogeneous", node)
            raise DegError(f"constant combined with {y}", node)
    if a.kind == "log" and b.kind == "log" and a.unit == b.unit:
        return FREE      # log(cx) - log(cy)
    if a.kind == "num" and b.kind == "num":
        if _clean(a.deg) != _clean(b.deg):
            raise DegError(f"sum/difference of values with different degrees {a} and {b}", node)
        return a
    raise DegError(f"sum/difference of {a} and {b}", node)


SAME = {"cummax", "cummin", "min", "max", "mean", "median", "squeeze", "last", "first", "bfill", "ffill", "dropna", "to_frame", "abs", "sum", "cumsum", "quantile",
        "reindex", "copy", "sort_index", "head", "tail", "std", "sem", "mad", "item", "astype", "rename", "T", "values", "iloc", "loc", "clip", "fillna", "unstack", "stack",
        "idxmin", "idxmax"}
TO_IDX = {"first_valid_index", "last_valid_index", "index", "days", "date", "count", "nunique", "size", "shape", "columns", "name"}


class DegreeAnalysis:
    def __init__(self, an, class_name="PandasMetrics"):
        self.an = an
        self.cls = an.prog.cls(class_name)
        self.methods = dict(self.cls.methods)
        for extra in ("SeriesMetrics", "DataFrameMetrics"):
            if an.prog.class_by_name.get(extra):
                for k, m in an.prog.cls(extra).methods.items():
                    self.methods.setdefault(k, m)
        self.memo: Dict[Tuple[str, str], V] = {}
        self.busy = set()
        self.consts = {}
        mod = self.cls.module
        for k, v in mod.constants.items():
            if isinstance(v, ast.Constant) and isinstance(v.value, (int, float)):
                self.consts[k] = v.value

    # degree of the return value of method `name` when self has unit `unit`
    def ret(self, name: str, unit: str = "L", arg_units: Dict[str, V] = None) -> V:
        key = (name, unit + "|" + ",".join(f"{k}:{v}" for k, v in sorted((arg_units or {}).items())))
        if key in self.memo:
            return self.memo[key]
        if key in self.busy:
            raise DegError(f"recursive metric {name}")
        f = self.methods.get(name)
        if f is None:
            raise DegError(f"unknown metric {name}")
        self.busy.add(key)
        try:
            env = {f.params[0]: V("num", {unit: Fraction(1)})}
            for p in f.params[1:]:
                if arg_units and p in arg_units:
                    env[p] = arg_units[p]
                else:
                    ann = f.param_annotation(p)
                    a = ast.unparse(ann) if ann is not None else ""
                    if "NDFrame" in a and "float" not in a:
                        env[p] = V("num", {f"P:{p}": Fraction(1)})     # another level series, own unit
                    elif "NDFrame" in a:
                        env[p] = V("rate")                            # Union[NDFrame, float]: a rate or a level, resolved by _parse_rate
                    else:
                        env[p] = LIT
            out = self._body(f, f.body_without_docstring(), env)
            self.memo[key] = out
            return out
        finally:
            self.busy.discard(key)

    def _body(self, f, stmts, env) -> Optional[V]:
        result = None
        for s in stmts:
            if isinstance(s, ast.Return):
                v = self.ev(f, s.value, env) if s.value is not None else LIT
                result = v if result is None else self._join(result, v, s)
                return result
            if isinstance(s, ast.Assign) and len(s.targets) == 1 and isinstance(s.targets[0], (ast.Tuple, ast.List)) and isinstance(s.value, (ast.Tuple, ast.List)) \
                    and len(s.targets[0].elts) == len(s.value.elts) and all(isinstance(t_, ast.Name) for t_ in s.targets[0].elts):
                vals = [self.ev(f, e_, env) for e_ in s.value.elts]        # a, b = x, y : element-wise (all evaluated first)
                for t_, v_ in zip(s.targets[0].elts, vals):
                    env[t_.id] = v_
            elif isinstance(s, ast.Assign):
                v = self.ev(f, s.value, env)
                for t in s.targets:
                    if isinstance(t, ast.Name):
                        env[t.id] = v
                    elif isinstance(t, ast.Subscript):
                        # x[...] = v : keep container's degree (tearsheet dict excluded by caller)
                        pass
            elif isinstance(s, ast.AugAssign) and isinstance(s.target, ast.Name):
                cur = env.get(s.target.id, LIT)
                rhs = self.ev(f, s.value, env)
                if isinstance(s.op, (ast.Add, ast.Sub)):
                    env[s.target.id] = add(cur, rhs, s)
                elif isinstance(s.op, ast.Mult):
                    env[s.target.id] = mul(cur, rhs)
                elif isinstance(s.op, ast.Div):
                    env[s.target.id] = mul(cur, rhs, -1)
            elif isinstance(s, ast.If):
                # isinstance(x, NDFrame) is decided by what x is here: a level series or a number
                t = s.test
                negated = False
                while isinstance(t, ast.UnaryOp) and isinstance(t.op, ast.Not):      # `if not isinstance(...)`: the same test, arms swapped
                    t, negated = t.operand, not negated
                if isinstance(t, ast.Call) and isinstance(t.func, ast.Name) and t.func.id == "isinstance" and len(t.args) == 2 and isinstance(t.args[0], ast.Name) and "NDFrame" in ast.unparse(t.args[1]):
                    x = env.get(t.args[0].id)
                    is_frame = None
                    if x is not None and x.kind == "num" and len(x.deg) == 1 and list(x.deg.values())[0] == 1:
                        is_frame = True
                    elif x is not None and (x.kind == "lit" or (x.kind == "num" and not x.deg)):
                        is_frame = False
                    if is_frame is not None:
                        taken = s.body if (is_frame != negated) else s.orelse
                        r = self._body(f, taken, env)
                        if r is not None:
                            return r
                        continue
                e1, e2 = dict(env), dict(env)
                r1 = self._body(f, s.body, e1)
                r2 = self._body(f, s.orelse, e2)
                for k in set(e1) | set(e2):
                    a, b = e1.get(k), e2.get(k)
                    if a is not None and b is not None:
                        try:
                            env[k] = self._join(a, b, s)
                        except DegError:
                            env[k] = V("other")
                    else:
                        env[k] = a or b
                if r1 is not None and r2 is not None:
                    return self._join(r1, r2, s)
                if r1 is not None:
                    result = r1 if result is None else self._join(result, r1, s)
                if r2 is not None:
                    result = r2 if result is None else self._join(result, r2, s)
            elif isinstance(s, ast.Expr):
                if isinstance(s.value, ast.Call):
                    self.ev(f, s.value, env)
            elif isinstance(s, (ast.FunctionDef, ast.Pass, ast.Raise, ast.Assert, ast.Import, ast.ImportFrom, ast.Global, ast.Nonlocal, ast.Delete)):
                continue
            elif isinstance(s, ast.For):
                continue
            else:
                raise DegError(f"unsupported statement {type(s).__name__}", s)
        return result

    def _join(self, a: V, b: V, node) -> V:
        if a.kind == "rate" and b.kind == "rate":
            return a            # the same still-unresolved rate-or-level on both arms
        if a.kind == "rate" or b.kind == "rate":
            return FREE if (a.kind in ("rate", "lit") or (a.kind == "num" and not a.deg)) and (b.kind in ("rate", "lit") or (b.kind == "num" and not b.deg)) else V("other")
        if a.kind in ("lit", "idx", "bool"):
            return b
        if b.kind in ("lit", "idx", "bool"):
            return a
        if a.kind == "num" and b.kind == "num" and _clean(a.deg) == _clean(b.deg):
            return a
        if a.kind == b.kind == "log" and a.unit == b.unit:
            return a
        raise DegError(f"branches return different degrees {a} / {b}", node)

    def ev(self, f, e: ast.AST, env) -> V:
        if isinstance(e, ast.Constant):
            return LIT
        if isinstance(e, ast.Name):
            if e.id in env:
                return env[e.id]
            if e.id in self.consts:
                return LIT
            return V("other")
        if isinstance(e, ast.IfExp):
            # `A if isinstance(x, NDFrame) else B`: decided by what x is here (a level series or a number), like the statement form
            t, negated = e.test, False
            while isinstance(t, ast.UnaryOp) and isinstance(t.op, ast.Not):
                t, negated = t.operand, not negated
            if isinstance(t, ast.Call) and isinstance(t.func, ast.Name) and t.func.id == "isinstance" and len(t.args) == 2 and isinstance(t.args[0], ast.Name) and "NDFrame" in ast.unparse(t.args[1]):
                x = env.get(t.args[0].id)
                is_frame = None
                if x is not None and x.kind == "num" and len(x.deg) == 1 and list(x.deg.values())[0] == 1:
                    is_frame = True
                elif x is not None and (x.kind == "lit" or (x.kind == "num" and not x.deg)):
                    is_frame = False
                if is_frame is not None:
                    return self.ev(f, e.body if (is_frame != negated) else e.orelse, env)
            return self._join(self.ev(f, e.body, env), self.ev(f, e.orelse, env), e)
        if isinstance(e, ast.UnaryOp):
            return self.ev(f, e.operand, env)
        if isinstance(e, ast.BinOp):
            l, r = self.ev(f, e.left, env), self.ev(f, e.right, env)
            if isinstance(e.op, (ast.Add, ast.Sub)):
                return add(l, r, e)
            if isinstance(e.op, ast.Mult):
                return mul(l, r)
            if isinstance(e.op, ast.Div):
                return mul(l, r, -1)
            if isinstance(e.op, ast.Pow):
                if r.kind not in ("lit", "idx") and not (r.kind == "num" and not r.deg):
                    raise DegError(f"exponent of degree {r}", e)
                if l.kind in ("lit", "idx"):
                    return FREE
                if l.kind == "num" and not l.deg:
                    return FREE
                if l.kind == "num" and isinstance(e.right, ast.Constant) and isinstance(e.right.value, (int, float)):
                    return V("num", {k: v * Fraction(str(e.right.value)) for k, v in l.deg.items()})
                raise DegError(f"power of a value of degree {l} with a non-literal exponent", e)
            raise DegError(f"operator {type(e.op).__name__}", e)
        if isinstance(e, ast.Compare):
            l = self.ev(f, e.left, env)
            for c in e.comparators:
                r = self.ev(f, c, env)
                zero = isinstance(c, ast.Constant) and c.value == 0
                if r.kind == "lit" and not zero and l.kind == "num" and l.deg:
                    raise DegError(f"value of degree {l} compared with a non-zero constant", e)
                if r.kind == "num" and l.kind == "num" and _clean(r.deg) != _clean(l.deg):
                    raise DegError(f"comparison of degrees {l} and {r}", e)
            return BOOL
        if isinstance(e, ast.Subscript):
            b = self.ev(f, e.value, env)
            return b
        if isinstance(e, ast.Attribute):
            b = self.ev(f, e.value, env)
            if e.attr in TO_IDX:
                return IDX
            if e.attr in SAME:
                return b
            if b.kind in ("idx", "other", "lit"):
                return b if b.kind != "lit" else LIT
            raise DegError(f"attribute .{e.attr} has no transfer rule", e)
        if isinstance(e, ast.Call):
            return self._call(f, e, env)
        if isinstance(e, ast.IfExp):
            return self._join(self.ev(f, e.body, env), self.ev(f, e.orelse, env), e)
        if isinstance(e, (ast.Tuple, ast.List, ast.Dict, ast.Lambda, ast.JoinedStr, ast.ListComp, ast.GeneratorExp, ast.DictComp)):
            return V("other")
        raise DegError(f"expression {type(e).__name__}", e)

    def _call(self, f, e: ast.Call, env) -> V:
        fn = e.func
        if isinstance(fn, ast.Attribute):
            name = fn.attr
            base_txt = ast.unparse(fn.value)
            if base_txt in ("np", "numpy"):
                args = [self.ev(f, a, env) for a in e.args]
                a0 = args[0] if args else LIT
                if name == "log":
                    if a0.kind in ("lit", "idx") or (a0.kind == "num" and not a0.deg):
                        return FREE
                    if a0.kind == "num" and len(a0.deg) == 1 and list(a0.deg.values())[0] == 1:
                        return V("log", unit=list(a0.deg)[0])
                    raise DegError(f"log of a value of degree {a0}", e)
                if name == "sqrt":
                    if a0.kind in ("lit", "idx"):
                        return LIT
                    if a0.kind == "num":
                        return V("num", {k: v / 2 for k, v in a0.deg.items()})
                    raise DegError(f"sqrt of {a0}", e)
                if name in ("sum", "mean", "abs", "max", "min", "cumsum"):
                    return a0
                if name in ("any", "all", "isnan"):
                    return BOOL
                if name in ("arange", "unique", "argsort"):
                    return IDX
                raise DegError(f"np.{name} has no transfer rule", e)
            if base_txt in ("pd", "pandas"):
                return V("other")
            base = self.ev(f, fn.value, env)
            # in-package metric on a level series
            if name in self.methods and name not in ("validate",):
                if base.kind == "num" and len(base.deg) == 1 and list(base.deg.values())[0] == 1:
                    unit = list(base.deg)[0]
                    g = self.methods[name]
                    au = {}
                    for p, a in zip(g.params[1:], e.args):
                        au[p] = self.ev(f, a, env)
                    for k in e.keywords:
                        au[k.arg] = self.ev(f, k.value, env)
                    return self.ret(name, unit, au)
                if base.kind == "rate" and name in ("squeeze",):
                    return base
                if base.kind == "rate":
                    # rate.squeeze().cagr(): a level in its own unit -> its metric
                    return self.ret(name, "P:rate", {})
                if base.kind == "other":
                    return V("other")
                raise DegError(f"metric .{name}() applied to a value of degree {base} (not a level series)", e)
            if name == "validate":
                return LIT
            if base.kind == "log":
                if name == "diff":
                    return FREE
                if name in ("iloc", "loc", "squeeze", "dropna"):
                    return base
                raise DegError(f".{name}() on log-levels is not scale-free (only .diff() is)", e)
            if name == "pct_change":
                if base.kind == "num":
                    return FREE
                raise DegError(f"pct_change of {base}", e)
            if name in ("diff",):
                return base
            if name == "pow":
                a0 = e.args[0] if e.args else None
                if base.kind == "num" and isinstance(a0, ast.Constant):
                    return V("num", {k: v * Fraction(str(a0.value)) for k, v in base.deg.items()})
                raise DegError("pow with non-literal exponent", e)
            if name in ("subtract", "sub", "add"):
                o = self.ev(f, e.args[0], env) if e.args else LIT
                return add(base, o, e)
            if name in ("div", "divide", "truediv"):
                o = self.ev(f, e.args[0], env) if e.args else LIT
                return mul(base, o, -1)
            if name in ("mul", "multiply"):
                o = self.ev(f, e.args[0], env) if e.args else LIT
                return mul(base, o)
            if name == "clip":
                for a in list(e.args) + [k.value for k in e.keywords]:
                    if not (isinstance(a, ast.Constant) and a.value == 0) and base.kind == "num" and base.deg:
                        raise DegError("clip with a non-zero bound on a value that scales", e)
                return base
            if name in ("var",):
                return mul(base, base)
            if name in ("corr",):
                return FREE
            if name in ("cov",):
                o = self.ev(f, e.args[0], env) if e.args else base
                return mul(base, o)
            if name in ("groupby", "resample", "rolling", "expanding"):
                return base
            if name in SAME:
                return base
            if name in TO_IDX or name in ("strftime", "intersection", "to_list"):
                return IDX
            if base.kind in ("other", "idx"):
                return base
            raise DegError(f"method .{name}() has no transfer rule", e)
        if isinstance(fn, ast.Name):
            if fn.id in ("len", "int", "range"):
                return IDX
            if fn.id in ("float", "abs", "sum", "max", "min"):
                return self.ev(f, e.args[0], env) if e.args else LIT
            if fn.id in ("isinstance", "str", "zip"):
                return V("other")
            # nested helper defined in the function
            for n in ast.walk(f.node):
                if isinstance(n, ast.FunctionDef) and n.name == fn.id and n is not f.node:
                    sub_env = dict(env)
                    for p, a in zip([x.arg for x in n.args.args], e.args):
                        sub_env[p] = self.ev(f, a, env)
                    body = n.body
                    return self._body(f, body, sub_env) or LIT
            return V("other")
        return V("other")
