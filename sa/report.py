"""Obligations, verdicts, known findings, evidence and exit codes."""
from __future__ import annotations
import ast
import hashlib
import json
import os
import re
import time
from typing import Dict, List, Optional, Any

VERIF = os.path.dirname(os.path.dirname(os.path.abspath(__file__)))
KNOWN_FILE = os.path.join(VERIF, "known_findings.json")


def norm_text(s: str) -> str:
    return re.sub(r"\s+", " ", s).strip()


class Ob:
    """One rule instance evaluated at one site."""

    def __init__(self, prop: str, rule: str, name: str, subject: str, ok: bool, loc: str,
                 detail: str, construct: str = "", witness: Any = None, clause: str = ""):
        self.prop = prop
        self.rule = rule          # template id, e.g. ORD, CMP, OWN
        self.name = name          # instance slug, e.g. S4.mark-before-writes
        self.subject = subject    # qualified function / class
        self.ok = ok
        self.loc = loc
        self.detail = detail
        self.construct = norm_text(construct)
        self.witness = witness
        self.clause = clause or name.split(".")[0]

    def key(self) -> Dict[str, str]:
        return {"property": self.prop, "rule": self.name, "subject": self.subject, "construct": self.construct}

    def as_dict(self) -> Dict[str, Any]:
        d = {"rule": f"{self.rule}:{self.name}", "subject": self.subject, "site": self.loc,
             "verdict": "discharged" if self.ok else "refuted", "detail": self.detail}
        if self.construct:
            d["construct"] = self.construct
        if self.witness is not None:
            d["witness"] = self.witness
        return d


class Checker:
    """Collects obligations for one property."""

    def __init__(self, prop: str, an):
        self.prop = prop
        self.an = an
        self.obs: List[Ob] = []
        self.exemptions: List[Dict[str, str]] = []
        self.notes: List[str] = []
        self.sites = 0
        self.floors: List[Dict[str, Any]] = []

    def ok(self, rule: str, name: str, subject: str, loc: str, detail: str, construct: str = "", witness=None):
        self.obs.append(Ob(self.prop, rule, name, subject, True, loc, detail, construct, witness))

    def fail(self, rule: str, name: str, subject: str, loc: str, detail: str, construct: str = "", witness=None):
        self.obs.append(Ob(self.prop, rule, name, subject, False, loc, detail, construct, witness))

    def check(self, cond: bool, rule: str, name: str, subject: str, loc: str, ok_detail: str, fail_detail: str = None,
              construct: str = "", witness=None) -> bool:
        if cond:
            self.ok(rule, name, subject, loc, ok_detail, construct, witness)
        else:
            self.fail(rule, name, subject, loc, fail_detail or ("NOT: " + ok_detail), construct, witness)
        return bool(cond)

    def exempt(self, rule: str, construct: str, reason: str):
        self.exemptions.append({"rule": rule, "construct": norm_text(construct), "reason": reason})

    def floor(self, what: str, found: int, minimum: int):
        """Subjects found vs the number confirmed by reading. Below the floor the
        checker has lost its footing -> AnalysisError (exit 2)."""
        from .model import AnalysisError
        self.floors.append({"what": what, "found": found, "floor": minimum})
        if found < minimum:
            raise AnalysisError(f"{self.prop}: {what}: found {found} subjects, floor is {minimum}")

    def note(self, s: str):
        self.notes.append(s)


def load_known() -> Dict[str, list]:
    if not os.path.exists(KNOWN_FILE):
        return {"findings": [], "fixed": []}
    with open(KNOWN_FILE) as f:
        return json.load(f)


def match_known(ob: Ob, known: Dict[str, list]) -> Optional[dict]:
    for k in known.get("findings", []):
        if k.get("property") != ob.prop:
            continue
        if k.get("rule") != ob.name:
            continue
        if k.get("subject") != ob.subject:
            continue
        kc = norm_text(k.get("construct", ""))
        if kc and kc != ob.construct:
            continue
        return k
    return None


def write_json(path: str, obj):
    os.makedirs(os.path.dirname(path), exist_ok=True)
    tmp = path + ".tmp"
    with open(tmp, "w") as f:
        json.dump(obj, f, indent=1, default=str)
    os.replace(tmp, path)


class Renamed:
    """Checker view that prefixes rule-instance names (used when a property
    re-evaluates clauses that are numbered under another property)."""

    def __init__(self, ck: Checker, prefix: str):
        self._ck = ck
        self._p = prefix
        self.prop = ck.prop
        self.an = ck.an

    def ok(self, rule, name, *a, **k):
        return self._ck.ok(rule, self._p + name, *a, **k)

    def fail(self, rule, name, *a, **k):
        return self._ck.fail(rule, self._p + name, *a, **k)

    def check(self, cond, rule, name, *a, **k):
        return self._ck.check(cond, rule, self._p + name, *a, **k)

    def exempt(self, *a, **k):
        return self._ck.exempt(*a, **k)

    def floor(self, *a, **k):
        return self._ck.floor(*a, **k)

    def note(self, s):
        return self._ck.note(s)
