"""Rule templates shared by the per-property rule files."""
from __future__ import annotations
import ast
from typing import List, Optional, Iterable, Tuple, Callable, Set, Dict
from .model import AnalysisError, FuncInfo, enclosing_stmt, parents
from .analysis import Analysis, FuncAnalysis, Effect
from .dataflow import cmp_key, cmp_atoms, cmp_strip_nan, Poly
from .report import Checker
from .resolve import walk_function


def stmt_text(node: ast.AST) -> str:
    s = enclosing_stmt(node)
    if s is None:
        s = node
    if isinstance(s, (ast.If, ast.While)):
        return "if " + ast.unparse(s.test)
    if isinstance(s, ast.For):
        return "for " + ast.unparse(s.target) + " in " + ast.unparse(s.iter)
    if isinstance(s, ast.Try):
        return "try"
    if isinstance(s, ast.With):
        return "with " + ", ".join(ast.unparse(i) for i in s.items)
    return ast.unparse(s)


def first(xs):
    return xs[0] if xs else None


# --------------------------------------------------------------------- ORD

def ord_before(ck: Checker, fa: FuncAnalysis, name: str, a_sites: List[ast.AST], b_sites: List[ast.AST],
               a_desc: str, b_desc: str, rule: str = "ORD") -> bool:
    """Every path from entry to every B passes an A first."""
    subj = fa.f.short
    if not a_sites:
        ck.fail(rule, name, subj, fa.f.loc, f"no {a_desc} found in {subj} (required before {b_desc})", construct=f"missing:{a_desc}")
        return False
    if not b_sites:
        ck.fail(rule, name, subj, fa.f.loc, f"no {b_desc} found in {subj}", construct=f"missing:{b_desc}")
        return False
    ok = True
    for b in b_sites:
        if fa.all_paths_to_pass(b, a_sites):
            ck.ok(rule, name, subj, fa.loc(b), f"{a_desc} precedes {b_desc} on every path", construct=stmt_text(b))
        else:
            ok = False
            ck.fail(rule, name, subj, fa.loc(b), f"{b_desc} is reachable without passing {a_desc}", construct=stmt_text(b),
                    witness=[f"A sites: {[fa.loc(a) for a in a_sites]}", f"B site: {fa.loc(b)}: {stmt_text(b)[:100]}"])
    return ok


def ord_after(ck: Checker, fa: FuncAnalysis, name: str, a_sites: List[ast.AST], b_sites: List[ast.AST],
              a_desc: str, b_desc: str, rule: str = "ORD") -> bool:
    """Every normal path from every A reaches a B afterwards."""
    subj = fa.f.short
    if not a_sites:
        ck.fail(rule, name, subj, fa.f.loc, f"no {a_desc} found in {subj}", construct=f"missing:{a_desc}")
        return False
    if not b_sites:
        ck.fail(rule, name, subj, fa.f.loc, f"no {b_desc} found in {subj} (required after {a_desc})", construct=f"missing:{b_desc}")
        return False
    ok = True
    for a in a_sites:
        if fa.all_paths_from_pass(a, b_sites):
            ck.ok(rule, name, subj, fa.loc(a), f"{b_desc} follows {a_desc} on every normal path", construct=stmt_text(a))
        else:
            ok = False
            ck.fail(rule, name, subj, fa.loc(a), f"a normal path from {a_desc} reaches the exit without {b_desc}", construct=stmt_text(a))
    return ok


# --------------------------------------------------------------------- OWN

def own_writers(ck: Checker, an: Analysis, name: str, owner: str, attr: str, allowed: Set[str],
                kinds: str = "WMD", rule: str = "OWN", min_sites: int = 1, include_fixtures: bool = False) -> List[Effect]:
    """Writers (stores / mutating calls) of owner.attr are a subset of `allowed`
    (function short names). Unknown-owner accesses with that attribute name are
    included (conservative)."""
    sites = []
    for f in an.functions(include_fixtures):
        for e in an.fa(f).effects():
            if e.attr != attr or e.kind not in kinds:
                continue
            if not (e.owner == "?" or an.owner_matches(e.owner.replace("class:", ""), owner) or any(an.owner_matches(o, owner) for o in e.owner.split("|"))):
                continue
            sites.append(e)
    real = [e for e in sites if not e.func.module.name.startswith("_fixture")]
    ck.floor(f"writers of {owner}.{attr}", len(real), min_sites)
    for e in sites:
        if e.func.module.name.startswith("_fixture"):
            continue
        who = [g.short for g in an.attributed(e.func)]       # a helper new to the inventory acts for the reviewed functions that call it
        if all(w in allowed for w in who):
            ck.ok(rule, name, e.func.short, e.loc, f"{e.kind} of {owner}.{attr} by allowed {', '.join(who)}", construct=stmt_text(e.node))
        else:
            ck.fail(rule, name, e.func.short, e.loc, f"{e.func.short}{'' if who == [e.func.short] else ' (called from ' + ', '.join(who) + ')'} writes {owner}.{attr}; allowed writers: {sorted(allowed)}", construct=stmt_text(e.node))
    return sites


def own_readers(ck: Checker, an: Analysis, name: str, owner: str, attr: str, allowed: Set[str],
                rule: str = "OWN", min_sites: int = 1) -> List[Effect]:
    sites = []
    for f in an.functions():
        for e in an.fa(f).effects():
            if e.attr != attr or e.kind != "R":
                continue
            if not (e.owner == "?" or any(an.owner_matches(o.replace("class:", ""), owner) for o in e.owner.split("|"))):
                continue
            sites.append(e)
    ck.floor(f"readers of {owner}.{attr}", len(sites), min_sites)
    for e in sites:
        if all(g.short in allowed for g in an.attributed(e.func)):
            ck.ok(rule, name, e.func.short, e.loc, f"read of {owner}.{attr} by allowed {e.func.short}", construct=stmt_text(e.node))
        else:
            ck.fail(rule, name, e.func.short, e.loc, f"{e.func.short} reads {owner}.{attr}; allowed readers: {sorted(allowed)}", construct=stmt_text(e.node))
    return sites


def own_callers(ck: Checker, an: Analysis, name: str, callee_short: str, allowed: Set[str], rule: str = "OWN",
                min_sites: int = 1, exempt: Optional[Callable[[FuncInfo, ast.AST], Optional[str]]] = None) -> List[Tuple[FuncInfo, ast.AST]]:
    """Callers of Class.method (resolved; unknown receivers matched by name)."""
    an.prog.func(callee_short)   # subject must exist
    sites = [(f, n) for f, n in an.callers_of(callee_short) if not f.module.name.startswith("_fixture")]
    ck.floor(f"callers of {callee_short}", len(sites), min_sites)
    for f, n in sites:
        loc = f"{f.module.relpath}:{n.lineno}"
        if all(g.short in allowed for g in an.attributed(f)):
            ck.ok(rule, name, f.short, loc, f"call of {callee_short} by allowed {f.short}", construct=stmt_text(n))
        else:
            reason = exempt(f, n) if exempt else None
            if reason:
                ck.exempt(f"{rule}:{name}", stmt_text(n), reason)
                ck.ok(rule, name, f.short, loc, f"call of {callee_short} exempt: {reason}", construct=stmt_text(n))
            else:
                ck.fail(rule, name, f.short, loc, f"{f.short} calls {callee_short}; allowed callers: {sorted(allowed)}", construct=stmt_text(n))
    return sites


# ------------------------------------------------------------------- GUARD

def rel_atoms(preds: Iterable[tuple]) -> List[tuple]:
    out = []
    for p in preds:
        out += [a for a in cmp_atoms(p) if a[0] == "rel"]
    return out


def poly_mentions(p: Poly, *needles: str, sign: int = 0) -> bool:
    """Some term (with coefficient sign `sign` if non-zero) mentions all needles."""
    for m, c in p.t.items():
        if sign and (c > 0) != (sign > 0):
            continue
        s = "*".join(a for a, _ in m)
        if all(n in s for n in needles):
            return True
    return False


def raises_in(fa: FuncAnalysis, exc: Optional[str] = None) -> List[ast.Raise]:
    out = []
    for n in walk_function(fa.f.node):
        if isinstance(n, ast.Raise):
            if exc is None or (n.exc is not None and exc in ast.unparse(n.exc)):
                out.append(n)
    out.sort(key=lambda n: n.lineno)
    return out


def returns_in(fa: FuncAnalysis) -> List[ast.Return]:
    out = [n for n in walk_function(fa.f.node) if isinstance(n, ast.Return)]
    out.sort(key=lambda n: n.lineno)
    return out


def assigns_to_attr(fa: FuncAnalysis, attr: str) -> List[ast.AST]:
    """Statements that store self.<attr> (plain or augmented)."""
    out = []
    for e in fa.effects():
        if e.attr == attr and e.kind == "W" and e.sub is None:
            out.append(enclosing_stmt(e.node))
    return out


def const_value(node: Optional[ast.AST]):
    if isinstance(node, ast.Constant):
        return node.value
    return "<non-constant>"


def all_stmts(fa: FuncAnalysis) -> List[ast.stmt]:
    return [n for n in walk_function(fa.f.node) if isinstance(n, ast.stmt)]


def effect_sites(fa: FuncAnalysis) -> List[ast.AST]:
    """All calls and attribute / item stores of a function (anything that can have an effect outside the call; binding a local has none)."""
    out = []
    for n in walk_function(fa.f.node):
        if isinstance(n, ast.Call):
            out.append(n)
        elif isinstance(n, (ast.Attribute, ast.Subscript)) and isinstance(n.ctx, (ast.Store, ast.Del)):
            out.append(n)
    return out


def in_docstring_free_body(fa: FuncAnalysis) -> List[ast.stmt]:
    return fa.f.body_without_docstring()


def enclosing_try_handlers(node: ast.AST, fn: ast.AST) -> List[ast.ExceptHandler]:
    """Handlers of every try whose *body* encloses node, innermost first."""
    out = []
    child = node
    for p in parents(node):
        if p is fn:
            break
        if isinstance(p, ast.Try) and any(child is s for s in p.body):
            out.extend(p.handlers)
        child = p
    return out


def handler_names(h: ast.ExceptHandler) -> Optional[List[str]]:
    from .cfg import _handler_types
    return _handler_types(h.type)


# -------------------------------------------------------------------- SIGN

SIGNS = ("neg", "zero", "pos", "nan")


def _sign_truth(atom: tuple, param_key: str, s: str) -> Optional[bool]:
    """Truth of a relational atom `c*param OP 0` for param of sign s."""
    if atom[0] != "rel":
        return None
    p: Poly = atom[4]
    if len(p.t) != 1:
        return None
    (m, c), = p.t.items()
    if m != ((param_key, 1),):
        return None
    if s == "nan":
        return atom[3] if atom[1] in ("<", "<=") else (atom[1] == "!=")
    v = {"neg": -1, "zero": 0, "pos": 1}[s] * (1 if c > 0 else -1)
    op = atom[1]
    return {"<": v < 0, "<=": v <= 0, "==": v == 0, "!=": v != 0}[op]


def _sign_eval(c: tuple, param_key: str, s: str) -> Optional[bool]:
    if c[0] == "and":
        vals = [_sign_eval(k, param_key, s) for k in c[1]]
        if any(v is False for v in vals):
            return False
        return None if any(v is None for v in vals) else True
    if c[0] == "or":
        vals = [_sign_eval(k, param_key, s) for k in c[1]]
        if any(v is True for v in vals):
            return True
        return None if any(v is None for v in vals) else False
    return _sign_truth(c, param_key, s)


def sign_table_expr(sym, expr: ast.AST, param_key: str, at=None) -> Dict[str, str]:
    """For an expression made of conditional expressions on the sign of one
    value: sign -> canonical result."""
    out = {}
    for s in SIGNS:
        e = expr
        while isinstance(e, ast.IfExp):
            c = sym.cmp(e.test, at)
            v = _sign_eval(c, param_key, s)
            if v is None:
                raise NotASignTable(f"condition {cmp_key(c)} is not a sign test of {param_key}")
            e = e.body if v else e.orelse
        out[s] = sym.canon(e, at)
    return out


class NotASignTable(AnalysisError):
    """The function is no longer a pure selection on the sign of its argument."""


def sign_table_or_fail(ck, fa: FuncAnalysis, param: str, name: str) -> Optional[Dict[str, str]]:
    """sign_table_func, reporting a VIOLATION (not an analysis error) when the
    function has stopped being a sign-only selection."""
    try:
        return sign_table_func(fa, param)
    except NotASignTable as e:
        ck.fail("SIGN", name, fa.f.short, fa.f.loc, f"{fa.f.short} is no longer a function of the sign of `{param}` alone: {e}", construct=f"{fa.f.short} shape")
        return None


def _under_sign(fa: FuncAnalysis, param: str, s: str):
    """The function evaluated (abstractly, never run) under the assumption that `param` has sign s: every test and
    conditional expression that is a sign test of `param` is decided; temporaries, if/else statements vs conditional
    expressions, inverted branches and renamed locals all reduce to the same value ids."""
    from sa.forward import Forward

    def dec(c):
        return _sign_eval(c, param, s)
    fw = Forward(fa.an, fa, assume=lambda st, f: dec(f.cmp(st.test)), call_effects=False)
    fw.sym.decide = dec
    fw.run()
    return fw


def sign_table_func(fa: FuncAnalysis, param: str) -> Dict[str, str]:
    """sign of `param` -> canonical returned value | 'raise' | 'fallthrough'. NotASignTable when a sign does not
    determine the outcome (the result depends on more than the sign)."""
    out = {}
    for s in SIGNS:
        fw = _under_sign(fa, param, s)
        vals = {v.key() if v is not None else "None" for r, v, st in fw.returns}
        if len(vals) > 1 or (vals and fw.st.alive):
            raise NotASignTable(f"for a {s} `{param}` the result is one of {sorted(vals)}{' or a fall-through' if fw.st.alive else ''}: it depends on more than the sign")
        if vals:
            out[s] = next(iter(vals))
            if "ite(" in out[s] or "phi" in out[s]:
                raise NotASignTable(f"for a {s} `{param}` the result is {out[s][:120]}: it depends on more than the sign")
        else:
            out[s] = "fallthrough" if fw.st.alive else "raise"
    return out


def sign_table_slot(fa: FuncAnalysis, param: str, slot: str) -> Dict[str, str]:
    """sign of `param` -> canonical value stored in `slot` (e.g. 'self.acq_price') when the function ends."""
    out = {}
    for s in SIGNS:
        fw = _under_sign(fa, param, s)
        v = fw.st.slots.get(slot)
        out[s] = v.key() if v is not None else "unset"
    return out


def loop_item(fa, loop, i=None):
    """Value id (Poly) of a `for` loop's target inside its body: the whole item, or element i of a tuple target.
    Rules name loop variables through this, never by their spelling."""
    t = loop.target
    if i is not None:
        t = t.elts[i]
    return fa.sym.ev(ast.Name(id=t.id, ctx=ast.Load()), fa.node_of(loop.body[0]).id)


def specv(fa, text: str, at=None):
    """A specification written in source syntax (over parameters / attributes / the function's own local names), normalised
    by the same evaluator as the code: Poly. `at` = CFG node id (default: function entry, where only parameters are bound)."""
    return fa.sym.ev(ast.parse(text, mode="eval").body, fa.cfg.entry.id if at is None else at)


def rel_is(p, op: str, poly) -> bool:
    """p (CMP normal form) is `poly op 0`; for == / != the sign of poly is immaterial."""
    if p[0] != "rel" or p[1] != op:
        return False
    return p[4] == poly or (op in ("==", "!=") and p[4] == -poly)


# ------------------------------------------------------------- evaluation under assumptions

def _rel_signs(op: str):
    return {s for s in (-1, 0, 1) if {"<": s < 0, "<=": s <= 0, "==": s == 0, "!=": s != 0}[op]}


def decide_by_facts(c, facts) -> Optional[bool]:
    """Truth of the CMP normal form c given facts (CMP normal forms taken as true): identical / negated predicates, and
    relations on the same polynomial (p < 0 decides p <= 0, p != 0, -p < 0, ...). None when the facts do not decide it."""
    from sa.dataflow import cmp_negate, cmp_strip_nan
    c = cmp_strip_nan(c)
    if c[0] == "truthy" and c[1] in ("True", "False", "None", "0", "1"):
        return (c[1] in ("True", "1")) == c[2]            # a literal flag
    if c[0] in ("and", "or"):
        vals = [decide_by_facts(k, facts) for k in c[1]]
        if c[0] == "and":
            return False if any(v is False for v in vals) else (None if any(v is None for v in vals) else True)
        return True if any(v is True for v in vals) else (None if any(v is None for v in vals) else False)
    for f in facts:
        f = cmp_strip_nan(f)
        if f[0] == "and":
            r = decide_by_facts(c, f[1])
            if r is not None:
                return r
            continue
        if cmp_key(c) == cmp_key(f):
            return True
        if cmp_key(c) == cmp_key(cmp_strip_nan(cmp_negate(f))):
            return False
        if c[0] == "rel" and f[0] == "rel":
            k = 1 if c[4] == f[4] else (-1 if c[4] == -f[4] else 0)
            if k:
                allowed = _rel_signs(f[1])
                truth = {(k * s) in _rel_signs(c[1]) for s in allowed}
                if len(truth) == 1:
                    return next(iter(truth))
            if f[1] == "==" and c[1] in ("==", "!="):
                # x == K1 decides x == K2 for another literal K2: c.poly = f.poly + (difference of distinct literals), and f.poly = 0
                for sign in (1, -1):
                    d = c[4] - (f[4] if sign == 1 else -f[4])
                    atoms = d.atoms()
                    if d.t and all(a[:1] in ("'", '"') or a[:2] in ("b'", 'b"') for a in atoms) and (atoms or d.const_value() not in (None, 0)):
                        return c[1] == "!="
    return None


def under(fa, facts_src, on_stmt=None, call_effects=False):
    """Forward evaluation of fa's function under assumptions written in source syntax over the function's own names
    (evaluated where they are used, so loop variables are bound): tests and conditional values they decide collapse."""
    from sa.forward import Forward
    holder = {}

    def dec(c):
        fw = holder["fw"]
        facts = []
        for t in facts_src:
            try:
                facts.append(fw.cmp(ast.parse(t, mode="eval").body))
            except Exception:
                pass
        return decide_by_facts(c, facts)
    fw = Forward(fa.an, fa, on_stmt=on_stmt, assume=lambda st, f: dec(f.cmp(st.test)), call_effects=call_effects)
    holder["fw"] = fw
    fw.sym.decide = dec
    fw.run()
    return fw


def ret_canons(fa) -> List[str]:
    """Value ids of every `return <value>` of the function (temporaries expanded)."""
    return [fa.sym.canon(r.value) for r in returns_in(fa) if r.value is not None]


def returns_spec(fa, *texts) -> Tuple[bool, List[str]]:
    """Every value return equals one of the specifications (source syntax, evaluated at the return itself by the same normaliser)."""
    rets = [r for r in returns_in(fa) if r.value is not None]
    got = [fa.sym.canon(r.value) for r in rets]
    ok = bool(rets) and all(fa.sym.canon(r.value) in {specv(fa, t, fa.node_of(r).id).key() for t in texts} for r in rets)
    return ok, got


def deref(fa, e: ast.AST, at=None):
    """(expression, node id): a plain local that has one reaching `name = expr` definition is replaced by that
    expression (repeatedly), so that a rule looking at the shape of a value sees through temporaries."""
    if at is None:
        n = fa.cfg.node_of(e)
        at = n.id if n is not None else None
    for _ in range(12):
        if not isinstance(e, ast.Name) or at is None:
            break
        defs = fa.rd.reaching(e.id, at)
        if len(defs) == 1 and defs[0].kind == "assign" and defs[0].value is not None and isinstance(defs[0].ast, ast.Assign) and len(defs[0].ast.targets) == 1 \
                and isinstance(defs[0].ast.targets[0], ast.Name):
            e, at = defs[0].value, defs[0].node
        else:
            break
    return e, at


def attr_increments(fa, attr: str, by: int = 1) -> Tuple[List[ast.stmt], List[ast.stmt]]:
    """(increments, other writes) of self.<attr> in the function: `self.a += by` and `self.a = self.a + by` are the same increment."""
    incs, others = [], []
    for s in all_stmts(fa):
        if isinstance(s, ast.AugAssign) and isinstance(s.target, ast.Attribute) and s.target.attr == attr:
            v = const_value(s.value)
            (incs if isinstance(s.op, ast.Add) and v == by and not isinstance(v, bool) else others).append(s)
        elif isinstance(s, ast.Assign):
            for t in s.targets:
                if isinstance(t, ast.Attribute) and t.attr == attr:
                    at = fa.node_of(s).id
                    cur = fa.sym.ev(ast.Attribute(value=t.value, attr=attr, ctx=ast.Load()), at)
                    (incs if fa.sym.ev(s.value, at) == cur + Poly.const(by) else others).append(s)
    return incs, others


# ------------------------------------------------------------- reference implementations

def reference(fa, src: str):
    """FuncAnalysis of a reference implementation (source text kept with the rule) placed in the same module and class as
    fa's function: both are normalised by the same evaluator, so spelling, temporaries, statement-vs-expression conditionals,
    augmented assignments and branch orientation do not matter - only the value ids do."""
    import textwrap
    from sa.model import FuncInfo
    from sa.analysis import FuncAnalysis as _FA
    node = ast.parse(textwrap.dedent(src)).body[0]
    node.name = node.name + "__reference"
    return _FA(fa.an, FuncInfo(fa.f.module, node, fa.f.cls))


def value_under(fa, expr: ast.AST, at: int, facts_src=()) -> str:
    """Value id of expr at CFG node `at`, conditional values collapsed under assumptions written in source syntax over the parameters."""
    facts = [fa.sym.cmp(ast.parse(t, mode="eval").body, fa.cfg.entry.id) for t in facts_src]
    old = fa.sym.decide
    fa.sym.decide = (lambda c: decide_by_facts(c, facts)) if facts else None
    try:
        return fa.sym.canon(expr, at)
    finally:
        fa.sym.decide = old


def expanded_helper(an, f) -> bool:
    """f is new to the reviewed inventory and every call of it was expanded in place into reviewed functions: what it does is
    analysed (and reported) there, with the arguments it is really given."""
    if not an.is_new_function(f) or f.qual not in an.prog.expanded_into:
        return False
    att = an.attributed(f)
    if not att or any(g.qual == f.qual for g in att):
        return False
    # no remaining unexpanded call of it anywhere
    for h in an.prog.functions.values():
        if h.qual == f.qual:
            continue
        for node, tg, e, kind in an.res.calls_in(h):
            if kind == "call" and any(t.qual == f.qual for t in tg):
                return False
    return True


def canon_where(fa, expr: ast.AST, site: ast.AST) -> str:
    """Value id of expr where `site` executes: conditional values that the guards of `site` decide collapse
    (`b = None if dead else book; if b is not None: b.update(e)` applies update to `book`)."""
    n = fa.cfg.node_of(site)
    at = n.id if n is not None else None
    facts = list(fa.guard_predicates(site))
    old = fa.sym.decide
    fa.sym.decide = (lambda c: decide_by_facts(c, facts)) if facts else old
    try:
        return fa.sym.canon(expr, at)
    finally:
        fa.sym.decide = old


def stored_attr_under(fa, attr: str, facts_src=()) -> Optional[str]:
    """Value id of the single, unconditional `self.<attr> = value` store of the function under the given assumptions (None if there is not exactly one such store)."""
    st = [s for s in all_stmts(fa) if isinstance(s, ast.Assign) and len(s.targets) == 1 and isinstance(s.targets[0], ast.Attribute) and s.targets[0].attr == attr
          and isinstance(s.targets[0].value, ast.Name) and s.targets[0].value.id == fa.f.params[0]]
    if len(st) != 1 or fa.syntactic_guards(st[0]):
        return None
    return value_under(fa, st[0].value, fa.node_of(st[0]).id, facts_src)


def enclosing_if(node):
    for p in parents(node):
        if isinstance(p, ast.If):
            return p
    return None


# ------------------------------------------------------------- decision tables by abstract evaluation

def decision_table(fa, atoms: List[tuple], observe: Callable, loop=None) -> Dict[tuple, object]:
    """For every truth assignment of the given atomic conditions (CMP normal forms), the function is evaluated abstractly
    under that assignment (tests and conditional values the assignment decides collapse) and `observe(fw, events)` reports
    what happened: `events` lists the hooks fired (see below) on live paths only. The table does not depend on how the
    code spells its control flow (nested ifs, guard clauses with `continue`, boolean temporaries, early returns ...).

    events: list of (statement, forward interpreter snapshot state) for every simple statement executed on a live path.
    Tests the assignment does not decide are explored on both branches (the observation then sees both)."""
    import itertools
    from sa.forward import Forward
    from sa.dataflow import cmp_negate
    table = {}
    for bits in itertools.product([True, False], repeat=len(atoms)):
        facts = [a if b else cmp_negate(a) for a, b in zip(atoms, bits)]
        events = []

        def on_stmt(s, fw_):
            if fw_.st.alive and not isinstance(s, (ast.If, ast.For, ast.While, ast.With)):
                events.append((s, fw_.st.copy()))

        def dec(c, facts=facts):
            return decide_by_facts(c, facts)
        open_tests = []

        def assume(s_, f_):
            r = dec(f_.cmp(s_.test))
            if r is None and f_.st.alive:
                open_tests.append((s_, f_.cmp(s_.test)))
            return r
        fw = Forward(fa.an, fa, on_stmt=on_stmt, assume=assume, call_effects=False)
        fw.sym.decide = dec
        fw.run()
        fw.open_tests = open_tests          # tests reached on a live path that the assignment does not decide
        table[bits] = observe(fw, events)
    return table


def ret_canons_plain(fa) -> List[str]:
    """ret_canons without seeing through in-package callees (the callee's name is what the rule is about)."""
    sym = fa.sym
    old = sym.inliner
    sym.inliner = None
    try:
        return [sym.canon(r.value) for r in returns_in(fa) if r.value is not None]
    finally:
        sym.inliner = old


def final_states(fw) -> list:
    """States in which the evaluated function can finish normally: every `return` plus falling off the end."""
    return [st for r, v, st in fw.returns] + ([fw.st] if fw.st.alive else [])


def function_value(fa) -> Optional["Poly"]:
    """The value a function returns, as ONE value id: its value returns folded into nested conditional expressions over their
    path conditions (`if c: return a` / `return b` is `a if c else b`). None if some path returns nothing / falls through."""
    from sa.forward import Forward
    from sa.dataflow import ite_atom, cmp_negate
    fw = Forward(fa.an, fa, call_effects=False).run()
    cases = [(v, list(st.conds)) for r, v, st in fw.returns]
    if fw.st.alive or not cases or any(v is None for v, _ in cases):
        return None
    val = cases[-1][0]
    earlier = set()
    decisive = []
    for v, conds in cases:
        d = [c for c in conds if cmp_key(c) not in earlier]
        decisive.append(d)
        for c in d:
            earlier.add(cmp_key(cmp_negate(c)))
    for (v, conds), d in zip(reversed(cases[:-1]), reversed(decisive[:-1])):
        if not d:
            return None
        c = d[0] if len(d) == 1 else ("and", sorted(d, key=cmp_key))
        val = ite_atom(c, v, val)
    return val


def _empty_forms(k: str) -> Set[str]:
    return {k, f"list({k})", f"tuple({k})", f"sorted({k})", f"{k}.items()", f"{k}.keys()", f"{k}.values()", f"list({k}.items())", f"list({k}.keys())", f"list({k}.values())", f"iter({k})"}


def _is_empty_guard(g) -> Optional[str]:
    """The collection (value id) a guard states to be EMPTY: `not K`, `len(K) == 0`, `len(K) < 1`; None otherwise."""
    if g[0] == "truthy" and g[2] is False:
        return g[1][4:-1] if g[1].startswith("len(") and g[1].endswith(")") else g[1]
    if g[0] == "rel" and g[1] in ("==", "<=") and isinstance(g[2], str) and g[2].startswith("len(") and g[2].endswith(")") and g[3] is True:
        return g[2][4:-1]
    return None


def shortcut_returns(fa: FuncAnalysis, loop: ast.AST, extra_empty: Iterable[str] = ()) -> List[Tuple[ast.Return, List[str], bool]]:
    """Returns of `fa` that can be reached without entering `loop` (a fast path deciding for all items at once), each with its
    path guards (as text) and whether it is *harmless*: among its guards is one stating that a collection K is empty, and the
    loop ranges over K (its iterable, evaluated at the return under those guards, is K / list(K) / K.items() ...; or K is
    one of `extra_empty`) - the loop would not have been entered. Anything else is a shortcut the caller has to judge."""
    ln = fa.node_of(loop)
    out = []
    if ln is None or fa.cfg.every_path_from_passes(fa.cfg.entry.id, {ln.id}):
        return out
    it_here = fa.sym.canon(loop.iter)
    for r in returns_in(fa):
        rn = fa.node_of(r)
        if rn is None or any(p is loop for p in parents(r)) or fa.cfg.every_path_from_passes(fa.cfg.entry.id, {ln.id}, to=rn.id):
            continue
        gs = fa.path_guards(r)
        empties = [k for k in (_is_empty_guard(g) for g in gs) if k]
        fine = False
        for k in empties:
            forms = _empty_forms(k)
            if k in set(extra_empty) or it_here in forms:
                fine = True
                break
            # the iterable is chosen per branch (`phi` / `ite`): the arm assigned in the block of the return, after it, must be a form of K
            blk_owner = next((p for p in parents(r) if isinstance(p, ast.If) and r in p.body and len(p.body) == 1 and not p.orelse), None)
            if blk_owner is None:
                continue
            holder = getattr(blk_owner, "_parent", None)
            for field in ("body", "orelse"):
                blk = getattr(holder, field, None)
                if isinstance(blk, list) and blk_owner in blk:
                    after = blk[blk.index(blk_owner) + 1:]
                    for s in after:
                        if isinstance(s, ast.Assign) and len(s.targets) == 1 and isinstance(loop.iter, ast.Name) and isinstance(s.targets[0], ast.Name) and s.targets[0].id == loop.iter.id:
                            if fa.sym.canon(s.value, fa.node_of(s).id) in forms:
                                fine = True
                            break
        if not fine and isinstance(loop.iter, ast.Name):
            # `xs = ...; if not xs: return` with nothing re-binding xs before `for x in xs`: the very list about to be iterated is empty
            own = next((p for p in parents(r) if isinstance(p, ast.If) and r in p.body and len(p.body) == 1 and not p.orelse), None)
            if own is not None:
                t = own.test
                if isinstance(t, ast.UnaryOp) and isinstance(t.op, ast.Not):
                    t = t.operand
                elif isinstance(t, ast.Compare) and len(t.ops) == 1 and isinstance(t.ops[0], ast.Eq) and isinstance(t.comparators[0], ast.Constant) and t.comparators[0].value == 0:
                    t = t.left
                else:
                    t = None
                if isinstance(t, ast.Call) and isinstance(t.func, ast.Name) and t.func.id == "len" and len(t.args) == 1:
                    t = t.args[0]
                if isinstance(t, ast.Name) and t.id == loop.iter.id:
                    rebound = [x for x in walk_function(fa.f.node) if isinstance(x, ast.Name) and isinstance(x.ctx, ast.Store) and x.id == t.id and own.lineno < x.lineno <= loop.lineno
                               and not any(p is own for p in parents(x))]
                    # stores in branches that exclude the guard's block (the `else` of an enclosing if) do not lie between the guard and the loop
                    rebound = [x for x in rebound if not any(isinstance(p, ast.If) and any(own is q or any(own is z for z in ast.walk(q)) for q in p.body) and any(x is z for q in p.orelse for z in ast.walk(q)) for p in parents(x))]
                    fine = not rebound
        out.append((r, [cmp_key(g)[:100] for g in gs], fine))
    return out


def new_api_functions(an) -> Set[str]:
    """Qualified names of functions that are new to the reviewed inventory and that no reviewed function reaches: by a call, or
    by reading a property of that name. They are added API surface (an accessor, a report): nothing the reviewed mechanisms do
    goes through them."""
    cached = getattr(an, "_new_api", None)
    if cached is not None:
        return cached
    new = {f.qual: f for f in an.prog.functions.values() if an.is_new_function(f)}
    cg = an.callees()
    by_name: Dict[str, Set[str]] = {}
    for q, f in new.items():
        by_name.setdefault(f.name, set()).add(q)
    def _reached_by(x: ast.Attribute) -> Set[str]:
        # `obj.name(...)` reaches a function of that name; a plain `obj.name` only a property (or a method taken as a value: passed on / stored)
        par = getattr(x, "_parent", None)
        called = isinstance(par, ast.Call) and par.func is x
        plain_read = isinstance(par, (ast.Attribute, ast.Compare, ast.BoolOp, ast.UnaryOp, ast.If, ast.IfExp, ast.While, ast.BinOp, ast.Return, ast.Subscript, ast.FormattedValue)) or \
            (isinstance(par, ast.Assign) and par.value is not x)
        return {q for q in by_name[x.attr] if called or new[q].is_property or not (plain_read and isinstance(x.ctx, ast.Load)) and not isinstance(x.ctx, ast.Store)}
    reached: Set[str] = set()
    stack = []
    for f in an.prog.functions.values():
        if f.qual in new:
            continue
        hit = set(cg.get(f.qual, ())) & set(new)
        for x in walk_function(f.node):
            if isinstance(x, ast.Attribute) and x.attr in by_name:
                hit |= _reached_by(x)
        stack.extend(hit)
    while stack:
        q = stack.pop()
        if q in reached:
            continue
        reached.add(q)
        stack.extend((set(cg.get(q, ())) & set(new)) - reached)
        for x in walk_function(new[q].node):
            if isinstance(x, ast.Attribute) and x.attr in by_name:
                stack.extend(_reached_by(x) - reached)
    # reachable without a call by name: observer callbacks (`process_<Event>`, looked up by getattr), dunders, and overrides of a
    # method name the reviewed tree already has (dynamic dispatch)
    known_names = {f.name for f in an.prog.functions.values() if not an.is_new_function(f)}
    out = {q for q in set(new) - reached if not new[q].name.startswith("process_") and not (new[q].name.startswith("__") and new[q].name.endswith("__")) and new[q].name not in known_names}
    an._new_api = out
    return out


_LOG_METHODS = {"debug", "info", "warning", "error", "exception", "critical", "log", "isEnabledFor"}


def is_logging_call(f: FuncInfo, call: ast.AST) -> bool:
    """`logger.debug(...)` etc. on a module-level `logger = logging.getLogger(...)`: formats its arguments, keeps nothing."""
    if not (isinstance(call, ast.Call) and isinstance(call.func, ast.Attribute) and call.func.attr in _LOG_METHODS and isinstance(call.func.value, ast.Name)):
        return False
    nm = call.func.value.id
    for st in f.module.tree.body:
        if isinstance(st, ast.Assign) and any(isinstance(t, ast.Name) and t.id == nm for t in st.targets) and isinstance(st.value, ast.Call):
            if ast.unparse(st.value.func) in ("logging.getLogger", "getLogger"):
                return True
    return False


def in_logging_statement(f: FuncInfo, node: ast.AST) -> bool:
    """node is (part of) an argument of a statement that only emits a log record"""
    st = enclosing_stmt(node)
    return isinstance(st, ast.Expr) and is_logging_call(f, st.value)
