"""Loader and program model: modules, classes, functions, imports, MRO.

Standard library only. Never imports the analysed package.
"""
from __future__ import annotations
import ast
import hashlib
import os
from typing import Set, Dict, List, Optional, Tuple, Iterable


class AnalysisError(Exception):
    """The checker lost its footing (missing subject, unsupported syntax,
    unresolved obligation). Mapped to exit code 2, never to a violation."""


REPO = os.environ.get("VERIF_REPO", "/repo")
PKG = "tradingenv"


class Module:
    def __init__(self, name: str, path: str, relpath: str, data: bytes):
        self.name = name
        self.path = path
        self.relpath = relpath
        self.sha256 = hashlib.sha256(data).hexdigest()
        self.src = data.decode("utf-8")
        # ast.parse normalises newlines itself; positions are per line.
        self.tree = ast.parse(self.src, filename=path)
        self.lines = self.src.splitlines()
        self.imports: Dict[str, Tuple[str, Optional[str]]] = {}
        self.functions: Dict[str, "FuncInfo"] = {}
        self.classes: Dict[str, "ClassInfo"] = {}
        self.constants: Dict[str, ast.AST] = {}
        for node in ast.walk(self.tree):
            for child in ast.iter_child_nodes(node):
                child._parent = node  # type: ignore

    def seg(self, node: ast.AST) -> str:
        try:
            return ast.get_source_segment(self.src, node) or ast.unparse(node)
        except Exception:
            return ast.unparse(node)


class FuncInfo:
    def __init__(self, module: Module, node: ast.FunctionDef, cls: Optional["ClassInfo"], outer: Optional["FuncInfo"] = None):
        self.module = module
        self.node = node
        self.cls = cls
        self.name = node.name
        self.outer = outer
        if cls is not None:
            self.qual = f"{module.name}:{cls.name}.{node.name}"
            self.short = f"{cls.name}.{node.name}"
        elif outer is not None:
            self.qual = f"{outer.qual}.<locals>.{node.name}"
            self.short = f"{outer.short}.<locals>.{node.name}"
        else:
            self.qual = f"{module.name}:{node.name}"
            self.short = node.name
        self.decorators = [ast.unparse(d) for d in node.decorator_list]
        self.is_property = any(d in ("property", "abstractproperty") or d.endswith(".setter") is False and d == "property" for d in self.decorators)
        self.is_static = "staticmethod" in self.decorators
        self.is_classmethod = "classmethod" in self.decorators
        self.is_abstract = any("abstractmethod" in d for d in self.decorators)

    @property
    def params(self) -> List[str]:
        a = self.node.args
        return [x.arg for x in a.posonlyargs + a.args + a.kwonlyargs] + (
            [a.vararg.arg] if a.vararg else []) + ([a.kwarg.arg] if a.kwarg else [])

    def param_default(self, name: str) -> Optional[ast.AST]:
        a = self.node.args
        pos = a.posonlyargs + a.args
        defaults = [None] * (len(pos) - len(a.defaults)) + list(a.defaults)
        for p, d in zip(pos, defaults):
            if p.arg == name:
                return d
        for p, d in zip(a.kwonlyargs, a.kw_defaults):
            if p.arg == name:
                return d
        return None

    def param_annotation(self, name: str) -> Optional[ast.AST]:
        a = self.node.args
        for p in a.posonlyargs + a.args + a.kwonlyargs:
            if p.arg == name:
                return p.annotation
        return None

    @property
    def loc(self) -> str:
        return f"{self.module.relpath}:{self.node.lineno}"

    def body_without_docstring(self) -> List[ast.stmt]:
        body = self.node.body
        if body and isinstance(body[0], ast.Expr) and isinstance(body[0].value, ast.Constant) and isinstance(body[0].value.value, str):
            return body[1:]
        return body

    def is_trivially_empty(self) -> bool:
        body = self.body_without_docstring()
        return all(isinstance(s, ast.Pass) or (isinstance(s, ast.Expr) and isinstance(s.value, ast.Constant)) for s in body)

    def raises_not_implemented_only(self) -> bool:
        body = self.body_without_docstring()
        return len(body) == 1 and isinstance(body[0], ast.Raise) and body[0].exc is not None and "NotImplementedError" in ast.unparse(body[0].exc)

    def __repr__(self):
        return f"<Func {self.qual}>"


class ClassInfo:
    def __init__(self, module: Module, node: ast.ClassDef):
        self.module = module
        self.node = node
        self.name = node.name
        self.qual = f"{module.name}:{node.name}"
        self.methods: Dict[str, FuncInfo] = {}
        self.class_attrs: Dict[str, ast.AST] = {}
        self.class_annots: Dict[str, ast.AST] = {}
        self.bases: List[ClassInfo] = []          # in-package bases, resolved
        self.ext_bases: List[str] = []            # dotted names of external bases
        self.slots: Optional[List[str]] = None

    @property
    def loc(self) -> str:
        return f"{self.module.relpath}:{self.node.lineno}"

    def __repr__(self):
        return f"<Class {self.qual}>"


class Program:
    def __init__(self, root: str = None, extra_files: Iterable[Tuple[str, str]] = ()):
        """root: repository root containing the package directory.
        extra_files: (module name, path) of fixture modules analysed along."""
        self.root = root or REPO
        self.modules: Dict[str, Module] = {}
        self.classes: Dict[str, ClassInfo] = {}       # by qual
        self.class_by_name: Dict[str, List[ClassInfo]] = {}
        self.functions: Dict[str, FuncInfo] = {}      # by qual
        self.requested: Set[str] = set()
        pkgdir = os.path.join(self.root, PKG)
        if not os.path.isdir(pkgdir):
            raise AnalysisError(f"package directory not found: {pkgdir}")
        for dirpath, dirnames, filenames in os.walk(pkgdir):
            dirnames[:] = sorted(d for d in dirnames if d != "__pycache__")
            for fn in sorted(filenames):
                if not fn.endswith(".py"):
                    continue
                path = os.path.join(dirpath, fn)
                rel = os.path.relpath(path, self.root)
                modname = rel[:-3].replace(os.sep, ".")
                if modname.endswith(".__init__"):
                    modname = modname[: -len(".__init__")]
                self._load(modname, path, rel)
        for modname, path in extra_files:
            self._load(modname, path, os.path.relpath(path, "/verif") if path.startswith("/verif") else path)
        # helpers new to the reviewed inventory are expanded at their call sites before anything is indexed (sa/normalise.py)
        from .normalise import Expander
        self.expanded_into: Dict[str, Set[str]] = {}
        if not os.environ.get("VERIF_NO_EXPAND"):
            self.expanded_into = Expander(self.modules).run().expanded_into
        for m in self.modules.values():
            self._index_module(m)
        for c in self.classes.values():
            self._resolve_bases(c)
        self._mro_cache: Dict[str, List[ClassInfo]] = {}

    # ------------------------------------------------------------------ load
    def _load(self, modname: str, path: str, rel: str):
        with open(path, "rb") as f:
            data = f.read()
        try:
            self.modules[modname] = Module(modname, path, rel, data)
        except SyntaxError as e:
            raise AnalysisError(f"syntax error in {rel}: {e}")

    def _index_module(self, m: Module):
        for node in m.tree.body:
            self._index_stmt(m, node)
        # imports anywhere at module level incl. try blocks handled above;
        # function-level imports are resolved lazily by the resolver.

    def _index_stmt(self, m: Module, node: ast.stmt):
        if isinstance(node, ast.Import):
            for a in node.names:
                local = a.asname or a.name.split(".")[0]
                target = a.name if a.asname else a.name.split(".")[0]
                m.imports[local] = (target, None)
        elif isinstance(node, ast.ImportFrom):
            mod = node.module or ""
            if node.level:
                base = m.name.split(".")
                # relative import
                base = base[: len(base) - node.level + (1 if m.path.endswith("__init__.py") else 0)]
                mod = ".".join(base + ([mod] if mod else []))
            for a in node.names:
                m.imports[a.asname or a.name] = (mod, a.name)
        elif isinstance(node, ast.FunctionDef):
            f = FuncInfo(m, node, None)
            m.functions[node.name] = f
            self.functions[f.qual] = f
            self._index_nested(m, f)
        elif isinstance(node, ast.ClassDef):
            c = ClassInfo(m, node)
            m.classes[node.name] = c
            self.classes[c.qual] = c
            self.class_by_name.setdefault(c.name, []).append(c)
            for s in node.body:
                if isinstance(s, ast.FunctionDef):
                    f = FuncInfo(m, s, c)
                    # keep the last definition (property setters are rare here)
                    c.methods[s.name] = f
                    self.functions[f.qual] = f
                    self._index_nested(m, f)
                elif isinstance(s, ast.Assign):
                    for t in s.targets:
                        if isinstance(t, ast.Name):
                            c.class_attrs[t.id] = s.value
                            if t.id == "__slots__":
                                try:
                                    c.slots = list(ast.literal_eval(s.value))
                                except Exception:
                                    c.slots = None
                elif isinstance(s, ast.AnnAssign) and isinstance(s.target, ast.Name):
                    c.class_annots[s.target.id] = s.annotation
                    if s.value is not None:
                        c.class_attrs[s.target.id] = s.value
        elif isinstance(node, ast.Assign):
            for t in node.targets:
                if isinstance(t, ast.Name):
                    m.constants[t.id] = node.value
        elif isinstance(node, (ast.If, ast.Try)):
            for s in ast.iter_child_nodes(node):
                if isinstance(s, ast.stmt):
                    self._index_stmt(m, s)

    def _index_nested(self, m: Module, f: FuncInfo):
        for s in ast.walk(f.node):
            if s is f.node:
                continue
            if isinstance(s, ast.FunctionDef) and _enclosing_function(s) is f.node:
                g = FuncInfo(m, s, None, outer=f)
                self.functions[g.qual] = g
                self._index_nested(m, g)

    def _resolve_bases(self, c: ClassInfo):
        for b in c.node.bases:
            tgt = self.resolve_name_expr(c.module, b)
            if isinstance(tgt, ClassInfo):
                c.bases.append(tgt)
            else:
                c.ext_bases.append(self.dotted(c.module, b) or ast.unparse(b))

    # ------------------------------------------------------------ name lookup
    def dotted(self, m: Module, expr: ast.AST) -> Optional[str]:
        """Fully-qualified dotted name of a Name/Attribute chain through the
        module's import table (e.g. np.isnan -> numpy.isnan)."""
        parts = []
        e = expr
        while isinstance(e, ast.Attribute):
            parts.append(e.attr)
            e = e.value
        if not isinstance(e, ast.Name):
            return None
        parts.reverse()
        if e.id in m.imports:
            mod, sym = m.imports[e.id]
            head = mod if sym is None else (f"{mod}.{sym}" if mod else sym)
        else:
            head = e.id
        return ".".join([head] + parts)

    def resolve_dotted(self, dotted: str):
        """Map a dotted name to ClassInfo / FuncInfo / Module if in package."""
        if dotted in self.modules:
            return self.modules[dotted]
        parts = dotted.split(".")
        for i in range(len(parts) - 1, 0, -1):
            mod = ".".join(parts[:i])
            if mod in self.modules:
                m = self.modules[mod]
                rest = parts[i:]
                obj = None
                if rest[0] in m.classes:
                    obj = m.classes[rest[0]]
                elif rest[0] in m.functions:
                    obj = m.functions[rest[0]]
                elif rest[0] in m.imports:
                    imod, isym = m.imports[rest[0]]
                    d = imod if isym is None else f"{imod}.{isym}"
                    if d != dotted:
                        obj = self.resolve_dotted(".".join([d] + rest[1:]))
                        return obj
                if obj is None:
                    return None
                for r in rest[1:]:
                    if isinstance(obj, ClassInfo):
                        obj = self.lookup_method(obj, r)
                    else:
                        return None
                return obj
        return None

    def resolve_name_expr(self, m: Module, expr: ast.AST):
        """Resolve Name/Attribute/str-constant to a ClassInfo/FuncInfo."""
        if isinstance(expr, ast.Constant) and isinstance(expr.value, str):
            name = expr.value.strip("'\" ")
            last = name.split(".")[-1]
            r = self.resolve_dotted(name)
            if r is not None:
                return r
            if last in m.classes:
                return m.classes[last]
            cands = self.class_by_name.get(last, [])
            if len(cands) == 1:
                return cands[0]
            return None
        if isinstance(expr, ast.Name):
            if expr.id in m.classes:
                return m.classes[expr.id]
            if expr.id in m.functions:
                return m.functions[expr.id]
        d = self.dotted(m, expr)
        if d is None:
            return None
        r = self.resolve_dotted(d)
        if r is None and isinstance(expr, ast.Attribute):
            # string-ish module paths that do not exist (tradingenv.broker.Broker)
            last = d.split(".")[-1]
            if d.startswith(PKG + "."):
                cands = self.class_by_name.get(last, [])
                if len(cands) == 1:
                    return cands[0]
        return r

    # -------------------------------------------------------------- hierarchy
    def mro(self, c: ClassInfo) -> List[ClassInfo]:
        if c.qual in self._mro_cache:
            return self._mro_cache[c.qual]
        seqs = [self.mro(b)[:] for b in c.bases] + [list(c.bases)]
        res = [c]
        seqs = [s for s in seqs if s]
        while seqs:
            for s in seqs:
                cand = s[0]
                if not any(cand in t[1:] for t in seqs):
                    break
            else:
                raise AnalysisError(f"inconsistent MRO for {c.qual}")
            res.append(cand)
            seqs = [[x for x in s if x is not cand] for s in seqs]
            seqs = [s for s in seqs if s]
        self._mro_cache[c.qual] = res
        return res

    def lookup_method(self, c: ClassInfo, name: str) -> Optional[FuncInfo]:
        for k in self.mro(c):
            if name in k.methods:
                return k.methods[name]
        return None

    def lookup_class_attr(self, c: ClassInfo, name: str):
        """Returns (owner class, value node) for a class-level attribute."""
        for k in self.mro(c):
            if name in k.class_attrs:
                return k, k.class_attrs[name]
            if name in k.methods:
                return k, k.methods[name]
        return None, None

    def subclasses(self, c: ClassInfo, strict: bool = True) -> List[ClassInfo]:
        out = []
        for k in self.classes.values():
            if k is c:
                if not strict:
                    out.append(k)
                continue
            if c in self.mro(k):
                out.append(k)
        return out

    def is_subclass(self, c: ClassInfo, base: ClassInfo) -> bool:
        return base in self.mro(c)

    def ext_bases_all(self, c: ClassInfo) -> List[str]:
        out = []
        for k in self.mro(c):
            out.extend(k.ext_bases)
        return out

    # ------------------------------------------------------------ convenience
    def func(self, short: str) -> FuncInfo:
        """Look a function up by 'Class.method' or 'function' (unique short
        name) or by full qual. Missing subject -> AnalysisError."""
        if short in self.functions:
            return self.functions[short]
        c = [f for f in self.functions.values() if f.short == short and not f.module.name.startswith("_fixture")]
        if len(c) == 1:
            self.requested.add(c[0].qual)     # functions looked up by name: what the rules of this run consult
            return c[0]
        if not c:
            raise AnalysisError(f"subject not found: function {short}")
        raise AnalysisError(f"ambiguous subject: {short}: {[f.qual for f in c]}")

    def has_func(self, short: str) -> bool:
        try:
            self.func(short)
            return True
        except AnalysisError:
            return False

    def cls(self, name: str) -> ClassInfo:
        if name in self.classes:
            return self.classes[name]
        c = [k for k in self.class_by_name.get(name, []) if not k.module.name.startswith("_fixture")]
        if len(c) == 1:
            return c[0]
        if not c:
            raise AnalysisError(f"subject not found: class {name}")
        raise AnalysisError(f"ambiguous subject: class {name}")

    def package_functions(self) -> List[FuncInfo]:
        return [f for f in self.functions.values() if f.module.name.startswith(PKG)]

    def all_functions(self) -> List[FuncInfo]:
        return list(self.functions.values())


def _enclosing_function(node: ast.AST):
    p = getattr(node, "_parent", None)
    while p is not None and not isinstance(p, (ast.FunctionDef, ast.AsyncFunctionDef, ast.Lambda)):
        p = getattr(p, "_parent", None)
    return p


def enclosing_function(node: ast.AST):
    return _enclosing_function(node)


def enclosing_stmt(node: ast.AST) -> ast.stmt:
    p = node
    while p is not None and not isinstance(p, ast.stmt):
        p = getattr(p, "_parent", None)
    return p


def parents(node: ast.AST):
    p = getattr(node, "_parent", None)
    while p is not None:
        yield p
        p = getattr(p, "_parent", None)
