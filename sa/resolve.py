"""Light-weight type inference and call resolution (stands in for the type
checker that is not available in this sandbox).

Types are lists of alternatives; each alternative is a tuple:
  ('cls', ClassInfo)   instance of an in-package class
  ('type', ClassInfo)  the class object itself
  ('ext', dotted)      instance of / value from an external library
  ('extmod', dotted)   external module or callable, by dotted name
  ('list', T) ('dict', K, V) ('tuple', [T..]) ('func', FuncInfo) ('module', Module)
"""
from __future__ import annotations
import ast
from typing import Dict, List, Optional, Tuple, Set
from .model import Program, Module, ClassInfo, FuncInfo, AnalysisError, enclosing_function, PKG

Ty = List[tuple]

# Receivers nothing in the source annotates (DESIGN appendix B), one reason each.
SUPPLEMENT: Dict[Tuple[str, str], str] = {
    ("TradingEnv", "_reward"): "AbstractReward",          # make_reward isinstance-checks it
    ("TradingEnv", "state"): "IState",                    # IState(state) if list else state
    ("TradingEnv", "_observers"): "Sequence[Observer]",   # tuple of state, exchange, features
    ("TradingEnv", "_events_latent"): "List[IEvent]",     # tuple-assigned from _next()
    ("TradingEnv", "_events_nonlatent"): "List[IEvent]",
    ("TradingEnv", "_transmitter"): "AbstractTransmitter",
    ("TradingEnv", "_broker_fees"): "IBrokerFees",
    ("TradingEnv", "action_space"): "PortfolioSpace",
    ("TradingEnv", "broker"): "Broker",
    ("TradingEnv", "exchange"): "Exchange",
    ("TradingEnv", "_last_event"): "IEvent",
    ("Rebalancing", "allocation"): "_Allocation",         # Weights/NrContracts in both branches
    ("Rebalancing", "trades"): "List[Trade]",
    ("Rebalancing", "context_pre"): "Context",
    ("Rebalancing", "context_post"): "Context",
    ("Broker", "track_record"): "TrackRecord",
    ("Broker", "fees"): "IBrokerFees",
    ("Broker", "exchange"): "Exchange",
    ("Broker", "base_currency"): "Cash",
    ("Broker", "_holdings_quantity"): "Dict[AbstractContract, float]",
    ("Broker", "_holdings_margins"): "Dict[AbstractContract, float]",
    ("IState", "features"): "Sequence[Feature]",
    ("IState", "exchange"): "Exchange",
    ("IState", "broker"): "Broker",
    ("Feature", "exchange"): "Exchange",
    ("Feature", "broker"): "Broker",
    ("Feature", "action_space"): "PortfolioSpace",
    ("Trade", "contract"): "AbstractContract",
    ("TrackRecord", "_rebalancing"): "Dict[datetime, Rebalancing]",
    ("Exchange", "_books"): "Dict[AbstractContract, LimitOrderBook]",
    ("FutureChain", "contracts"): "List[Future]",
    ("EventNBBO", "contract"): "AbstractContract",
    ("EventContractDiscontinued", "contract"): "AbstractContract",
    ("PortfolioSpace", "contracts"): "Sequence[AbstractContract]",
    ("PortfolioSpace", "base_currency"): "Cash",
    ("IBrokerFees", "interest_rate"): "Rate",
    ("Transmitter", "events"): "List[IEvent]",
    ("Transmitter", "_folds"): "PartitionTimeRanges",
}

SEQ_NAMES = {"List", "Sequence", "Iterable", "list", "Set", "set", "Iterator", "deque", "FrozenSet", "Collection", "MutableSequence"}
DICT_NAMES = {"Dict", "dict", "Mapping", "OrderedDict", "defaultdict", "MutableMapping"}


class Resolver:
    def __init__(self, prog: Program):
        self.prog = prog
        self._attr_cache: Dict[Tuple[str, str], Ty] = {}
        self._attr_busy: Set[Tuple[str, str]] = set()
        self._local_cache: Dict[str, Dict[str, Ty]] = {}
        self._local_busy: Set[str] = set()
        self._ret_cache: Dict[str, Ty] = {}
        self._ret_busy: Set[str] = set()
        self._calls_cache: Dict[str, list] = {}
        self._func_of_node: Dict[int, FuncInfo] = {}
        self.byname: Set[int] = set()
        for f in prog.functions.values():
            self._func_of_node[id(f.node)] = f

    # ------------------------------------------------------------ annotations
    def ann_to_type(self, m: Module, ann: Optional[ast.AST]) -> Ty:
        if ann is None:
            return []
        if isinstance(ann, ast.Constant):
            if ann.value is None:
                return []
            if isinstance(ann.value, str):
                try:
                    sub = ast.parse(ann.value, mode="eval").body
                except SyntaxError:
                    return []
                return self.ann_to_type(m, sub)
            return []
        if isinstance(ann, ast.BinOp) and isinstance(ann.op, ast.BitOr):
            return self.ann_to_type(m, ann.left) + self.ann_to_type(m, ann.right)
        if isinstance(ann, ast.Subscript):
            base = ann.value
            bname = base.attr if isinstance(base, ast.Attribute) else getattr(base, "id", None)
            sl = ann.slice
            elts = sl.elts if isinstance(sl, ast.Tuple) else [sl]
            if bname in ("Union", "Optional"):
                out = []
                for e in elts:
                    out += self.ann_to_type(m, e)
                return out
            if bname in SEQ_NAMES:
                return [("list", self.ann_to_type(m, elts[0]))]
            if bname in ("Tuple", "tuple"):
                if len(elts) == 2 and isinstance(elts[1], ast.Constant) and elts[1].value is Ellipsis:
                    return [("list", self.ann_to_type(m, elts[0]))]
                return [("tuple", [self.ann_to_type(m, e) for e in elts])]
            if bname in DICT_NAMES and len(elts) == 2:
                return [("dict", self.ann_to_type(m, elts[0]), self.ann_to_type(m, elts[1]))]
            if bname == "Type":
                return [("type", t[1]) for t in self.ann_to_type(m, elts[0]) if t[0] == "cls"]
            return []
        if isinstance(ann, (ast.Name, ast.Attribute)):
            r = self.prog.resolve_name_expr(m, ann)
            if isinstance(r, ClassInfo):
                return [("cls", r)]
            if isinstance(ann, ast.Name) and ann.id in ("float", "int", "str", "bool", "bytes", "Any", "Callable", "Number", "object"):
                return [("ext", "builtins." + ann.id)]
            d = self.prog.dotted(m, ann)
            if d:
                # unique class with this simple name anywhere in the package
                last = d.split(".")[-1]
                if d.startswith(PKG):
                    c = [k for k in self.prog.class_by_name.get(last, [])]
                    if len(c) == 1:
                        return [("cls", c[0])]
                return [("ext", d)]
        return []

    def _parse_supp(self, text: str) -> Ty:
        node = ast.parse(text, mode="eval").body
        return self._supp_node(node)

    def _supp_node(self, node) -> Ty:
        if isinstance(node, ast.Subscript):
            b = node.value.id
            elts = node.slice.elts if isinstance(node.slice, ast.Tuple) else [node.slice]
            if b in SEQ_NAMES:
                return [("list", self._supp_node(elts[0]))]
            if b in DICT_NAMES:
                return [("dict", self._supp_node(elts[0]), self._supp_node(elts[1]))]
            return []
        if isinstance(node, ast.Name):
            c = [k for k in self.prog.class_by_name.get(node.id, []) if not k.module.name.startswith("_fixture")]
            if len(c) == 1:
                return [("cls", c[0])]
            return [("ext", "builtins." + node.id)]
        return []

    # ---------------------------------------------------------- attribute types
    def attr_type(self, c: ClassInfo, attr: str) -> Ty:
        key = (c.qual, attr)
        if key in self._attr_cache:
            return self._attr_cache[key]
        if key in self._attr_busy:
            return []
        self._attr_busy.add(key)
        try:
            out: Ty = []
            for k in self.prog.mro(c):
                if (k.name, attr) in SUPPLEMENT:
                    out = self._parse_supp(SUPPLEMENT[(k.name, attr)])
                    break
            if not out:
                for k in self.prog.mro(c):
                    if attr in k.class_annots:
                        out = self.ann_to_type(k.module, k.class_annots[attr])
                        if out:
                            break
                    if attr in k.methods:
                        f = k.methods[attr]
                        if f.is_property:
                            out = self.return_type(f)
                        else:
                            out = [("func", f)]
                        break
            if not out:
                # assignments self.attr = ... anywhere in the class hierarchy
                for k in self.prog.mro(c):
                    for f in k.methods.values():
                        selfname = self._self_name(f)
                        for node in ast.walk(f.node):
                            tgt = val = ann = None
                            if isinstance(node, ast.Assign):
                                for t in node.targets:
                                    if _is_self_attr(t, selfname, attr):
                                        tgt, val = t, node.value
                            elif isinstance(node, ast.AnnAssign) and _is_self_attr(node.target, selfname, attr):
                                tgt, val, ann = node.target, node.value, node.annotation
                            if tgt is None:
                                continue
                            if ann is not None:
                                out += self.ann_to_type(k.module, ann)
                            elif val is not None:
                                out += self.type_of(val, f)
                    if out:
                        break
            if not out:
                for k in self.prog.mro(c):
                    if attr in k.class_attrs:
                        out = self._const_type(k.module, k.class_attrs[attr])
                        break
            out = _dedup(out)
            self._attr_cache[key] = out
            return out
        finally:
            self._attr_busy.discard(key)

    def _self_name(self, f: FuncInfo) -> Optional[str]:
        if f.cls is None or f.is_static:
            return None
        if f.name == "__new__":
            # pattern: obj = super().__new__(cls)
            for node in ast.walk(f.node):
                if isinstance(node, (ast.Assign, ast.AnnAssign)) and node.value is not None and "__new__" in ast.unparse(node.value):
                    t = node.targets[0] if isinstance(node, ast.Assign) else node.target
                    if isinstance(t, ast.Name):
                        return t.id
            return None
        a = f.node.args
        pos = a.posonlyargs + a.args
        return pos[0].arg if pos else None

    def _const_type(self, m: Module, node: ast.AST) -> Ty:
        if isinstance(node, ast.Constant):
            return [("ext", "builtins." + type(node.value).__name__)]
        if isinstance(node, ast.Call):
            r = self.prog.resolve_name_expr(m, node.func)
            if isinstance(r, ClassInfo):
                return [("cls", r)]
        return []

    # ------------------------------------------------------------- return types
    def return_type(self, f: FuncInfo) -> Ty:
        if f.qual in self._ret_cache:
            return self._ret_cache[f.qual]
        if f.qual in self._ret_busy:
            return []
        self._ret_busy.add(f.qual)
        try:
            out = self.ann_to_type(f.module, f.node.returns)
            if not out:
                for node in ast.walk(f.node):
                    if isinstance(node, ast.Return) and node.value is not None and enclosing_function(node) is f.node:
                        out += self.type_of(node.value, f)
            out = _dedup(out)
            self._ret_cache[f.qual] = out
            return out
        finally:
            self._ret_busy.discard(f.qual)

    # --------------------------------------------------------------- local types
    def local_types(self, f: FuncInfo) -> Dict[str, Ty]:
        if f.qual in self._local_cache:
            return self._local_cache[f.qual]
        if f.qual in self._local_busy:
            return {}
        self._local_busy.add(f.qual)
        env: Dict[str, Ty] = {}
        self._local_cache[f.qual] = env
        try:
            # parameters
            a = f.node.args
            pos = a.posonlyargs + a.args
            for i, p in enumerate(pos + a.kwonlyargs):
                if i == 0 and f.cls is not None and not f.is_static and p in pos:
                    if f.is_classmethod or f.name == "__new__":
                        env[p.arg] = [("type", f.cls)]
                    else:
                        env[p.arg] = [("cls", f.cls)]
                    continue
                t = self.ann_to_type(f.module, p.annotation)
                if not t:
                    d = f.param_default(p.arg)
                    if d is not None:
                        t = self._const_type(f.module, d)
                env[p.arg] = t
            sn = self._self_name(f)
            if f.name == "__new__" and sn:
                env[sn] = [("cls", f.cls)]
            # two passes so that later assignments can use earlier ones
            for _ in range(2):
                for node in ast.walk(f.node):
                    if enclosing_function(node) is not f.node and node is not f.node:
                        # comprehension variables are handled below; nested defs skipped
                        pass
                    if isinstance(node, ast.Assign):
                        vt = None
                        for t in node.targets:
                            if isinstance(t, ast.Name):
                                vt = vt if vt is not None else self.type_of(node.value, f)
                                env[t.id] = _dedup(env.get(t.id, []) + vt) if t.id in env and env[t.id] and _ == 0 else (vt or env.get(t.id, []))
                            elif isinstance(t, (ast.Tuple, ast.List)):
                                vt = vt if vt is not None else self.type_of(node.value, f)
                                self._bind_tuple(t, vt, env)
                    elif isinstance(node, ast.AnnAssign) and isinstance(node.target, ast.Name):
                        t = self.ann_to_type(f.module, node.annotation)
                        if not t and node.value is not None:
                            t = self.type_of(node.value, f)
                        env[node.target.id] = t
                    elif isinstance(node, (ast.For, ast.comprehension)):
                        it = self.type_of(node.iter, f)
                        et = self._elem_type(it)
                        self._bind_target(node.target, et, env)
                    elif isinstance(node, ast.With):
                        for item in node.items:
                            if isinstance(item.optional_vars, ast.Name):
                                env[item.optional_vars.id] = self.type_of(item.context_expr, f)
                    elif isinstance(node, ast.ExceptHandler) and node.name:
                        env[node.name] = []
            return env
        finally:
            self._local_busy.discard(f.qual)

    def _bind_target(self, target, t: Ty, env):
        if isinstance(target, ast.Name):
            env[target.id] = t
        elif isinstance(target, (ast.Tuple, ast.List)):
            self._bind_tuple(target, t, env)

    def _bind_tuple(self, target, t: Ty, env):
        for alt in t:
            if alt[0] == "tuple" and len(alt[1]) == len(target.elts):
                for e, et in zip(target.elts, alt[1]):
                    self._bind_target(e, et, env)
                return
        for e in target.elts:
            if isinstance(e, ast.Name):
                env.setdefault(e.id, [])

    def _elem_type(self, t: Ty) -> Ty:
        out = []
        for alt in t:
            if alt[0] == "list":
                out += alt[1]
            elif alt[0] == "dict":
                out += alt[1]
            elif alt[0] == "items":
                out.append(("tuple", [alt[1], alt[2]]))
            elif alt[0] == "cls":
                # dict subclasses (e.g. _Allocation) iterate over keys
                pass
        return out

    # --------------------------------------------------------------- expressions
    def func_of(self, node: ast.AST) -> Optional[FuncInfo]:
        fn = enclosing_function(node)
        while fn is not None and isinstance(fn, ast.Lambda):
            fn = enclosing_function(fn)
        return self._func_of_node.get(id(fn)) if fn is not None else None

    def type_of(self, e: ast.AST, f: FuncInfo) -> Ty:
        m = f.module
        if isinstance(e, ast.Name):
            env = self.local_types(f)
            if e.id in env:
                return env[e.id]
            if f.outer is not None:
                oenv = self.local_types(f.outer)
                if e.id in oenv:
                    return oenv[e.id]
            r = self.prog.resolve_name_expr(m, e)
            if isinstance(r, ClassInfo):
                return [("type", r)]
            if isinstance(r, FuncInfo):
                return [("func", r)]
            if e.id in m.imports:
                d = self.prog.dotted(m, e)
                if d in self.prog.modules:
                    return [("module", self.prog.modules[d])]
                return [("extmod", d)]
            return []
        if isinstance(e, ast.Constant):
            if e.value is None:
                return []
            return [("ext", "builtins." + type(e.value).__name__)]
        if isinstance(e, ast.Attribute):
            bt = self.type_of(e.value, f)
            out: Ty = []
            for alt in bt:
                if alt[0] == "cls":
                    out += self.attr_type(alt[1], e.attr)
                elif alt[0] == "type":
                    fn = self.prog.lookup_method(alt[1], e.attr)
                    if fn is not None:
                        out.append(("func", fn))
                    else:
                        out += self.attr_type(alt[1], e.attr)
                elif alt[0] == "module":
                    mod = alt[1]
                    if e.attr in mod.classes:
                        out.append(("type", mod.classes[e.attr]))
                    elif e.attr in mod.functions:
                        out.append(("func", mod.functions[e.attr]))
                    else:
                        d = self.prog.resolve_dotted(mod.name + "." + e.attr)
                        if isinstance(d, Module):
                            out.append(("module", d))
                        elif isinstance(d, ClassInfo):
                            out.append(("type", d))
                        elif isinstance(d, FuncInfo):
                            out.append(("func", d))
                elif alt[0] == "extmod":
                    d = alt[1] + "." + e.attr
                    r = self.prog.resolve_dotted(d)
                    if isinstance(r, Module):
                        out.append(("module", r))
                    elif isinstance(r, ClassInfo):
                        out.append(("type", r))
                    elif isinstance(r, FuncInfo):
                        out.append(("func", r))
                    else:
                        out.append(("extmod", d))
                elif alt[0] in ("dict", "list"):
                    out.append(("bound", alt, e.attr))
            if not out and not bt:
                d = self.prog.dotted(m, e)
                if d:
                    r = self.prog.resolve_dotted(d)
                    if isinstance(r, ClassInfo):
                        return [("type", r)]
                    if isinstance(r, FuncInfo):
                        return [("func", r)]
            return _dedup(out)
        if isinstance(e, ast.Call):
            return self._call_type(e, f)
        if isinstance(e, ast.Subscript):
            bt = self.type_of(e.value, f)
            out = []
            for alt in bt:
                if alt[0] == "list":
                    if isinstance(e.slice, ast.Slice):
                        out.append(alt)
                    else:
                        out += alt[1]
                elif alt[0] == "dict":
                    out += alt[2]
                elif alt[0] == "tuple":
                    if isinstance(e.slice, ast.Constant) and isinstance(e.slice.value, int) and -len(alt[1]) <= e.slice.value < len(alt[1]):
                        out += alt[1][e.slice.value]
                elif alt[0] == "cls":
                    g = self.prog.lookup_method(alt[1], "__getitem__")
                    if g is not None:
                        out += self.return_type(g)
            return _dedup(out)
        if isinstance(e, ast.IfExp):
            return _dedup(self.type_of(e.body, f) + self.type_of(e.orelse, f))
        if isinstance(e, ast.BoolOp):
            out = []
            for v in e.values:
                out += self.type_of(v, f)
            return _dedup(out)
        if isinstance(e, (ast.List, ast.Set)):
            et = []
            for x in e.elts:
                et += self.type_of(x, f)
            return [("list", _dedup(et))]
        if isinstance(e, ast.Tuple):
            return [("tuple", [self.type_of(x, f) for x in e.elts])]
        if isinstance(e, (ast.ListComp, ast.SetComp, ast.GeneratorExp)):
            return [("list", self.type_of(e.elt, f))]
        if isinstance(e, ast.DictComp):
            return [("dict", self.type_of(e.key, f), self.type_of(e.value, f))]
        if isinstance(e, ast.Dict):
            kt, vt = [], []
            for k, v in zip(e.keys, e.values):
                if k is not None:
                    kt += self.type_of(k, f)
                vt += self.type_of(v, f)
            return [("dict", _dedup(kt), _dedup(vt))]
        if isinstance(e, ast.BinOp):
            lt = self.type_of(e.left, f)
            if any(a[0] in ("list", "tuple") for a in lt):
                return lt
            return []
        if isinstance(e, ast.Starred):
            return self.type_of(e.value, f)
        return []

    def _call_type(self, e: ast.Call, f: FuncInfo) -> Ty:
        fn = e.func
        # builtins with transparent typing
        if isinstance(fn, ast.Name):
            if fn.id in ("list", "sorted", "tuple", "set", "reversed", "frozenset") and e.args:
                t = self.type_of(e.args[0], f)
                return [("list", self._elem_type(t))]
            if fn.id in ("list", "set", "tuple") and not e.args:
                return [("list", [])]
            if fn.id == "dict":
                if e.args:
                    t = self.type_of(e.args[0], f)
                    d = [a for a in t if a[0] == "dict"]
                    if d:
                        return d
                return [("dict", [], [])]
            if fn.id == "zip":
                return [("list", [("tuple", [self._elem_type(self.type_of(a, f)) for a in e.args])])]
            if fn.id == "enumerate" and e.args:
                return [("list", [("tuple", [[("ext", "builtins.int")], self._elem_type(self.type_of(e.args[0], f))])])]
            if fn.id == "super":
                if f.cls is not None:
                    mro = self.prog.mro(f.cls)
                    return [("super", f.cls)]
                return []
            if fn.id == "type" and len(e.args) == 1:
                t = self.type_of(e.args[0], f)
                return [("type", a[1]) for a in t if a[0] == "cls"]
            if fn.id == "getattr":
                return []
            if fn.id == "defaultdict":
                return [("dict", [], [])]
            if fn.id == "deque":
                if e.args:
                    return [("list", self._elem_type(self.type_of(e.args[0], f)))]
                return [("list", [])]
        ft = self.type_of(fn, f)
        out: Ty = []
        for alt in ft:
            if alt[0] == "type":
                out.append(("cls", alt[1]))
            elif alt[0] == "func":
                out += self.return_type(alt[1])
            elif alt[0] == "bound":
                base, meth = alt[1], alt[2]
                if base[0] == "dict":
                    if meth == "items":
                        out.append(("list", [("tuple", [base[1], base[2]])]))
                    elif meth == "keys":
                        out.append(("list", base[1]))
                    elif meth == "values":
                        out.append(("list", base[2]))
                    elif meth in ("get", "pop", "setdefault"):
                        out += base[2]
                    elif meth == "copy":
                        out.append(base)
                elif base[0] == "list":
                    if meth in ("pop", "popleft"):
                        out += base[1]
                    elif meth == "copy":
                        out.append(base)
            elif alt[0] == "extmod":
                out.append(("ext", alt[1] + "()"))
        # method call on in-package class instance: x.m(...)
        if isinstance(fn, ast.Attribute):
            bt = self.type_of(fn.value, f)
            for alt in bt:
                if alt[0] == "super":
                    g = self._super_lookup(alt[1], fn.attr)
                    if g is not None:
                        out += self.return_type(g)
                elif alt[0] == "cls" and not any(a[0] == "func" for a in ft):
                    # dict subclass methods
                    if any(b.endswith("dict") for b in self.prog.ext_bases_all(alt[1])):
                        if fn.attr == "items":
                            out.append(("list", [("tuple", [[("cls", self.prog.cls("AbstractContract"))] if self.prog.class_by_name.get("AbstractContract") else [], [("ext", "builtins.float")]])]))
                        elif fn.attr == "copy":
                            out.append(("dict", [], []))
        return _dedup(out)

    def _super_lookup(self, c: ClassInfo, name: str) -> Optional[FuncInfo]:
        mro = self.prog.mro(c)
        for k in mro[1:]:
            if name in k.methods:
                return k.methods[name]
        return None

    # ------------------------------------------------------------ call resolution
    def resolve_call(self, call: ast.Call, f: FuncInfo) -> Tuple[List[FuncInfo], Optional[str]]:
        """Returns (in-package targets, external dotted name or None)."""
        fn = call.func
        prog = self.prog
        targets: List[FuncInfo] = []
        ext = None
        if isinstance(fn, ast.Name):
            if fn.id == "super":
                return [], "builtins.super"
            t = self.type_of(fn, f)
            # nested function defined in this function
            for g in prog.functions.values():
                if g.outer is f and g.name == fn.id:
                    targets.append(g)
            for alt in t:
                if alt[0] == "func":
                    targets.append(alt[1])
                elif alt[0] == "type":
                    targets += self._ctor_targets(alt[1])
                elif alt[0] == "extmod":
                    ext = alt[1]
                elif alt[0] == "cls":
                    targets += self._method_targets(alt[1], "__call__")
            if not t and not targets:
                # variable bound by getattr(observer, name): observer dispatch
                d = self._getattr_binding(fn.id, f)
                if d is not None:
                    targets += d
                else:
                    ext = "builtins." + fn.id if fn.id in dir(__builtins__) or fn.id in __builtins__ else None
        elif isinstance(fn, ast.Attribute):
            bt = self.type_of(fn.value, f)
            for alt in bt:
                if alt[0] == "cls":
                    targets += self._method_targets(alt[1], fn.attr)
                elif alt[0] == "type":
                    g = prog.lookup_method(alt[1], fn.attr)
                    if g is not None:
                        targets.append(g)
                    else:
                        ext = f"{alt[1].name}.{fn.attr}"
                elif alt[0] == "super":
                    if fn.attr == "__new__":
                        continue
                    g = self._super_lookup(alt[1], fn.attr)
                    if g is not None:
                        targets.append(g)
                    else:
                        ext = "super." + fn.attr
                elif alt[0] == "module":
                    mod = alt[1]
                    if fn.attr in mod.functions:
                        targets.append(mod.functions[fn.attr])
                    elif fn.attr in mod.classes:
                        targets += self._ctor_targets(mod.classes[fn.attr])
                elif alt[0] == "extmod":
                    ext = alt[1] + "." + fn.attr
                elif alt[0] == "ext":
                    ext = alt[1] + "." + fn.attr
                elif alt[0] in ("list", "dict", "tuple"):
                    ext = alt[0] + "." + fn.attr
            if not bt:
                d = prog.dotted(f.module, fn)
                if d:
                    r = prog.resolve_dotted(d)
                    if isinstance(r, FuncInfo):
                        targets.append(r)
                    elif isinstance(r, ClassInfo):
                        targets += self._ctor_targets(r)
                    elif isinstance(fn.value, ast.Name) and fn.value.id in f.module.imports:
                        ext = d
        elif isinstance(fn, ast.Call):
            # getattr(mod, name)()  /  f()()
            if isinstance(fn.func, ast.Name) and fn.func.id == "getattr" and fn.args:
                bt = self.type_of(fn.args[0], f)
                for alt in bt:
                    if alt[0] == "module":
                        for c in alt[1].classes.values():
                            targets += self._ctor_targets(c)
        else:
            t = self.type_of(fn, f)
            for alt in t:
                if alt[0] == "cls":
                    targets += self._method_targets(alt[1], "__call__")
        if not targets and ext is None:
            t = self.type_of(fn, f) if not isinstance(fn, ast.Call) else []
            for alt in t:
                if alt[0] == "cls":
                    targets += self._method_targets(alt[1], "__call__")
                    if not targets:
                        ext = "call:" + alt[1].name
                elif alt[0] == "func":
                    targets.append(alt[1])
                elif alt[0] == "type":
                    targets += self._ctor_targets(alt[1])
                    if not targets:
                        ext = "ctor:" + alt[1].name
                elif alt[0] == "bound":
                    ext = alt[1][0] + "." + alt[2]
        if not targets and ext is None and isinstance(fn, ast.Attribute):
            bt = self.type_of(fn.value, f)
            for alt in bt:
                if alt[0] == "cls":
                    eb = self.prog.ext_bases_all(alt[1])
                    if eb:
                        ext = eb[0] + "." + fn.attr
            if ext is None and not any(a[0] == "cls" for a in bt):
                # unknown receiver: conservative by-name fallback
                cands = self.methods_named(fn.attr)
                if cands:
                    targets += cands
                    self.byname.add(id(call))
                else:
                    ext = "?." + fn.attr
        seen = set()
        uniq = []
        for g in targets:
            if g.qual not in seen:
                seen.add(g.qual)
                uniq.append(g)
        return uniq, ext

    def _ctor_targets(self, c: ClassInfo) -> List[FuncInfo]:
        out = []
        for name in ("__new__", "__init__"):
            g = self.prog.lookup_method(c, name)
            if g is not None:
                out.append(g)
        return out

    def methods_named(self, name: str) -> List[FuncInfo]:
        return [g for g in self.prog.functions.values() if g.cls is not None and g.name == name]

    def _method_targets(self, c: ClassInfo, name: str) -> List[FuncInfo]:
        """Static target plus every override in subclasses (CHA)."""
        out = []
        g = self.prog.lookup_method(c, name)
        if g is not None:
            out.append(g)
        for s in self.prog.subclasses(c):
            if name in s.methods:
                out.append(s.methods[name])
        return out

    def _getattr_binding(self, name: str, f: FuncInfo) -> Optional[List[FuncInfo]]:
        """callback = getattr(observer, callback_name) -> all process_* methods
        of every class the receiver may be."""
        for node in ast.walk(f.node):
            if isinstance(node, ast.Assign) and len(node.targets) == 1 and isinstance(node.targets[0], ast.Name) and node.targets[0].id == name:
                v = node.value
                if isinstance(v, ast.Call) and isinstance(v.func, ast.Name) and v.func.id == "getattr" and v.args:
                    bt = self.type_of(v.args[0], f)
                    out = []
                    const = v.args[1].value if len(v.args) > 1 and isinstance(v.args[1], ast.Constant) else None
                    for alt in bt:
                        if alt[0] != "cls":
                            continue
                        for k in [alt[1]] + self.prog.subclasses(alt[1]):
                            for mname, meth in k.methods.items():
                                if const is not None:
                                    if mname == const:
                                        out.append(meth)
                                elif mname.startswith("process_"):
                                    out.append(meth)
                    return out
        return None

    def property_targets(self, attr: ast.Attribute, f: FuncInfo) -> List[FuncInfo]:
        """Property functions invoked by loading x.attr."""
        out = []
        for alt in self.type_of(attr.value, f):
            if alt[0] == "cls":
                for g in self._method_targets(alt[1], attr.attr):
                    if g.is_property:
                        out.append(g)
        return out

    def calls_in(self, f: FuncInfo):
        """[(call node or attribute node, targets, ext, kind)] for one function
        (nested function bodies excluded, comprehensions included)."""
        if f.qual in self._calls_cache:
            return self._calls_cache[f.qual]
        out = []
        for node in walk_function(f.node):
            if isinstance(node, ast.Call):
                tg, ext = self.resolve_call(node, f)
                out.append((node, tg, ext, "call"))
            elif isinstance(node, ast.Attribute) and isinstance(node.ctx, ast.Load):
                tg = self.property_targets(node, f)
                if tg:
                    out.append((node, tg, None, "property"))
            elif isinstance(node, ast.Subscript):
                for alt in self.type_of(node.value, f):
                    if alt[0] == "cls":
                        name = "__getitem__" if isinstance(node.ctx, ast.Load) else ("__setitem__" if isinstance(node.ctx, ast.Store) else "__delitem__")
                        tg = self._method_targets(alt[1], name)
                        if tg:
                            out.append((node, tg, None, "subscript"))
            elif isinstance(node, ast.Compare):
                # `x in obj` -> obj.__contains__ / contains (gymnasium Space.__contains__ -> contains)
                for op, comp in zip(node.ops, node.comparators):
                    if isinstance(op, (ast.In, ast.NotIn)):
                        for alt in self.type_of(comp, f):
                            if alt[0] == "cls":
                                tg = self._method_targets(alt[1], "__contains__") or self._method_targets(alt[1], "contains")
                                if tg:
                                    out.append((node, tg, None, "contains"))
        self._calls_cache[f.qual] = out
        return out


def walk_function(fn: ast.AST):
    """Walk a function body without descending into nested defs/classes
    (lambdas and comprehensions are included)."""
    stack = list(ast.iter_child_nodes(fn))
    while stack:
        n = stack.pop()
        if isinstance(n, (ast.FunctionDef, ast.AsyncFunctionDef, ast.ClassDef)):
            continue
        yield n
        stack.extend(ast.iter_child_nodes(n))


def _is_self_attr(t: ast.AST, selfname: Optional[str], attr: str) -> bool:
    return (isinstance(t, ast.Attribute) and t.attr == attr and isinstance(t.value, ast.Name)
            and selfname is not None and t.value.id == selfname)


def _dedup(t: Ty) -> Ty:
    out = []
    seen = set()
    for a in t:
        k = _key(a)
        if k not in seen:
            seen.add(k)
            out.append(a)
    return out


def _key(a) -> str:
    if a[0] in ("cls", "type", "super"):
        return f"{a[0]}:{a[1].qual}"
    if a[0] == "func":
        return f"func:{a[1].qual}"
    if a[0] == "module":
        return f"module:{a[1].name}"
    if a[0] == "list":
        return "list[" + ",".join(sorted(_key(x) for x in a[1])) + "]"
    if a[0] == "dict":
        return "dict[" + ",".join(sorted(_key(x) for x in a[1])) + ":" + ",".join(sorted(_key(x) for x in a[2])) + "]"
    if a[0] == "tuple":
        return "tuple[" + ";".join(",".join(sorted(_key(x) for x in e)) for e in a[1]) + "]"
    if a[0] == "bound":
        return "bound:" + _key(a[1]) + "." + a[2]
    return f"{a[0]}:{a[1]}"


def type_names(t: Ty) -> List[str]:
    return sorted(_key(a) for a in t)
