"""EXC: interprocedural may-raise analysis for named exception classes.

A function may let exception E escape if (a) it contains `raise E(...)` not
enclosed by a matching handler, or (b) it calls (resolved, CHA) a function that
lets E escape, at a site not enclosed by a matching handler. Constant boolean
arguments are honoured: a raise guarded by a truthy test of parameter p is not
reachable from a call site that passes the literal False for p (or omits it
when the default is False)."""
from __future__ import annotations
import ast
from typing import Dict, List, Optional, Tuple, Set
from .model import FuncInfo, parents, enclosing_function
from .cfg import exc_ancestors, _handler_types, _exc_name
from .resolve import walk_function


class Chain:
    def __init__(self, steps: List[Tuple[str, str, str]], cond: Optional[str] = None):
        self.steps = steps     # (function short, loc, text)
        self.cond = cond       # parameter of the *first* function the raise depends on

    def render(self) -> List[str]:
        return [f"{fn} @ {loc}: {txt}" for fn, loc, txt in self.steps]


class ExcAnalysis:
    def __init__(self, an, exc_name: str, skip_edges: Set[Tuple[str, str]] = frozenset(), follow_byname: bool = False):
        self.an = an
        self.exc = exc_name
        self.skip_edges = skip_edges      # (caller short, callee name) edges not followed (named exemptions)
        self.follow_byname = follow_byname
        self.extra_parents = self._package_exc_parents()
        self.anc = exc_ancestors(exc_name, self.extra_parents)
        self._memo: Dict[str, List[Chain]] = {}
        self._busy: Set[str] = set()
        self.skipped: List[Tuple[str, str, str]] = []

    def _package_exc_parents(self) -> Dict[str, str]:
        out = {}
        for c in self.an.prog.classes.values():
            if c.bases:
                out[c.name] = c.bases[0].name
            elif c.ext_bases:
                out[c.name] = c.ext_bases[0].split(".")[-1]
        return out

    def caught_at(self, node: ast.AST, f: FuncInfo) -> bool:
        """Is an exception of class self.exc raised at `node` caught inside f?"""
        child = node
        for p in parents(node):
            if p is f.node:
                break
            if isinstance(p, ast.Try):
                in_body = any(child is s for s in p.body)
                if in_body:
                    for h in p.handlers:
                        ht = _handler_types(h.type)
                        if ht is None or any(t in self.anc for t in ht):
                            return True
            child = p
        return False

    def _raise_cond(self, raise_stmt: ast.Raise, f: FuncInfo) -> Optional[str]:
        """If the raise is guarded by truthiness of a parameter, return it."""
        fa = self.an.fa(f)
        try:
            preds = fa.guard_predicates(raise_stmt)
        except Exception:
            return None
        for p in preds:
            if p[0] == "truthy" and p[2] and p[1] in f.params:
                return p[1]
        return None

    def _arg_for(self, call: ast.Call, g: FuncInfo, param: str):
        params = g.params
        offset = 1 if (g.cls is not None and not g.is_static and isinstance(call.func, ast.Attribute)) else 0
        if g.cls is not None and g.name in ("__init__", "__new__"):
            offset = 1
        for kw in call.keywords:
            if kw.arg == param:
                return kw.value
        if param in params:
            i = params.index(param) - offset
            if 0 <= i < len(call.args):
                return call.args[i]
        return g.param_default(param)

    def escapes(self, f: FuncInfo) -> List[Chain]:
        if f.qual in self._memo:
            return self._memo[f.qual]
        if f.qual in self._busy:
            return []
        self._busy.add(f.qual)
        chains: List[Chain] = []
        try:
            for node in walk_function(f.node):
                if isinstance(node, ast.Raise) and node.exc is not None:
                    name = _exc_name(node.exc)
                    if name is None:
                        continue
                    if name == self.exc or self.exc in exc_ancestors(name, self.extra_parents):
                        if not self.caught_at(node, f):
                            cond = self._raise_cond(node, f)
                            chains.append(Chain([(f.short, f"{f.module.relpath}:{node.lineno}", f"raise {name}")], cond))
            for node, tgs, ext, kind in self.an.res.calls_in(f):
                if id(node) in self.an.res.byname and not self.follow_byname:
                    continue
                if self.caught_at(node, f):
                    continue
                for g in tgs:
                    if (f.short, g.name) in self.skip_edges or (f.short, g.short) in self.skip_edges:
                        self.skipped.append((f.short, g.short, f"{f.module.relpath}:{node.lineno}"))
                        continue
                    for ch in self.escapes(g):
                        if ch.cond is not None and isinstance(node, ast.Call):
                            arg = self._arg_for(node, g, ch.cond)
                            if isinstance(arg, ast.Constant) and not arg.value:
                                continue
                        txt = ast.unparse(node)[:80]
                        chains.append(Chain([(f.short, f"{f.module.relpath}:{node.lineno}", txt)] + ch.steps, None))
            # keep one (shortest) chain per (first site, final raise)
            best: Dict[Tuple[str, str], Chain] = {}
            for ch in chains:
                k = (ch.steps[0][1] + ch.steps[0][2], ch.steps[-1][1])
                if k not in best or len(ch.steps) < len(best[k].steps):
                    best[k] = ch
            out = list(best.values())
            self._memo[f.qual] = out
            return out
        finally:
            self._busy.discard(f.qual)
