"""Systematic operator mutants of a property's anchor functions, used to
measure (and improve) the sensitivity of that property's rules. Purely static:
mutants are source variants written to a temp dir outside /repo and /verif,
analysed with the same engine, and deleted. A mutant is *killed* when the
property's check reports a violation (or loses its footing) on it.

Survivors are not failures: many are equivalent or irrelevant to the property.
They are listed so that a human can triage them."""
from __future__ import annotations
import ast
import copy
import json
import os
import shutil
import subprocess
import sys
import tempfile
import textwrap
from concurrent.futures import ProcessPoolExecutor
from typing import Dict, List, Tuple

VERIF = os.path.dirname(os.path.dirname(os.path.abspath(__file__)))
REPO = os.environ.get("VERIF_REPO", "/repo")
PINNED = "e4d58ed"

CMP_FLIP = {ast.Lt: [ast.LtE, ast.Gt], ast.LtE: [ast.Lt, ast.GtE], ast.Gt: [ast.GtE, ast.Lt], ast.GtE: [ast.Gt, ast.LtE], ast.Eq: [ast.NotEq], ast.NotEq: [ast.Eq],
            ast.In: [ast.NotIn], ast.NotIn: [ast.In], ast.Is: [ast.IsNot], ast.IsNot: [ast.Is]}
BIN_FLIP = {ast.Add: [ast.Sub], ast.Sub: [ast.Add], ast.Mult: [ast.Div], ast.Div: [ast.Mult]}
NAME_SWAP = [("bid_price", "ask_price"), ("acq_price", "liq_price"), ("appendleft", "append"), ("pop", "popleft"), ("bisect_left", "bisect_right"), ("context_pre", "context_post"),
             ("_partition_latent", "_partition_nonlatent"), ("_events_latent", "_events_nonlatent"), ("min", "max"), ("ffill", "bfill"), ("cummax", "cummin"), ("start_date", "end_date"),
             ("margin_requirement", "cash_requirement"), ("_holdings_margins", "_holdings_quantity"), ("train_size", "test_size"), ("first_valid_index", "last_valid_index"),
             ("expiry", "last_trading_date"), ("bid_size", "ask_size"), ("_process_latent_events", "_process_nonlatent_events"), ("transformer_end", "end"), ("sorted", "list")]


def anchor_functions(prop: str) -> List[Tuple[str, str]]:
    """[(relpath, qualified function name)] overlapping the property's anchors at the pinned commit."""
    props = [json.loads(l) for l in open(os.path.join(VERIF, "properties.jsonl"))]
    p = next(x for x in props if x["id"] == prop)
    out = []
    for m in p["anchors"]["mechanism"]:
        for part in m.get("where", "").split(";"):
            part = part.strip()
            if ":" not in part:
                continue
            fn, rng = part.split(":", 1)
            files = [f for f in p["anchors"]["files"] if f.endswith("/" + fn) or f.endswith(fn)]
            if not files:
                continue
            rel = files[0]
            spans = []
            for r in rng.split(","):
                r = r.strip()
                if "-" in r:
                    a, b = r.split("-")
                else:
                    a = b = r
                try:
                    spans.append((int(a), int(b)))
                except ValueError:
                    pass
            try:
                src = subprocess.run(["git", "-C", REPO, "show", f"{PINNED}:{rel}"], capture_output=True, text=True).stdout
                tree = ast.parse(src)
            except Exception:
                continue
            for node in ast.walk(tree):
                if isinstance(node, ast.ClassDef):
                    for s in node.body:
                        if isinstance(s, ast.FunctionDef) and any(not (s.end_lineno < a or s.lineno > b) for a, b in spans):
                            out.append((rel, f"{node.name}.{s.name}"))
            for s in tree.body:
                if isinstance(s, ast.FunctionDef) and any(not (s.end_lineno < a or s.lineno > b) for a, b in spans):
                    out.append((rel, s.name))
    seen = []
    for x in out:
        if x not in seen:
            seen.append(x)
    return seen


def _find(tree, qual):
    parts = qual.split(".")
    if len(parts) == 2:
        for n in tree.body:
            if isinstance(n, ast.ClassDef) and n.name == parts[0]:
                for s in n.body:
                    if isinstance(s, ast.FunctionDef) and s.name == parts[1]:
                        return s
    else:
        for n in tree.body:
            if isinstance(n, ast.FunctionDef) and n.name == parts[0]:
                return n
    return None


def _skip(node, parents) -> bool:
    """No mutation inside raise messages, docstrings, format strings, asserts."""
    for p in parents:
        if isinstance(p, (ast.Raise, ast.JoinedStr, ast.Assert)):
            return True
        if isinstance(p, ast.Call) and isinstance(p.func, ast.Attribute) and p.func.attr == "format":
            return True
    return False


def mutants_of(fn: ast.FunctionDef) -> List[Tuple[str, ast.FunctionDef]]:
    """All single-site mutants of one function (as new FunctionDef nodes)."""
    out = []
    # index nodes by a stable path so that we can find them in a deep copy
    sites = []

    def walk(node, path, parents):
        for field, value in ast.iter_fields(node):
            if isinstance(value, list):
                for i, v in enumerate(value):
                    if isinstance(v, ast.AST):
                        sites.append((v, path + [(field, i)], parents + [node]))
                        walk(v, path + [(field, i)], parents + [node])
            elif isinstance(value, ast.AST):
                sites.append((value, path + [(field, None)], parents + [node]))
                walk(value, path + [(field, None)], parents + [node])
    walk(fn, [], [])

    def at(root, path):
        n = root
        for field, i in path:
            n = getattr(n, field)
            if i is not None:
                n = n[i]
        return n

    def emit(desc, path, mutate):
        new = copy.deepcopy(fn)
        target = at(new, path)
        parent = at(new, path[:-1]) if path else None
        if mutate(new, target, parent, path[-1] if path else None) is not False:
            try:
                ast.fix_missing_locations(new)
                ast.unparse(new)
                out.append((desc, new))
            except Exception:
                pass

    body0 = fn.body[1:] if fn.body and isinstance(fn.body[0], ast.Expr) and isinstance(getattr(fn.body[0], "value", None), ast.Constant) and isinstance(fn.body[0].value.value, str) else fn.body
    for node, path, parents in sites:
        if _skip(node, parents):
            continue
        ln = getattr(node, "lineno", fn.lineno)
        if isinstance(node, ast.Compare):
            for i, op in enumerate(node.ops):
                for alt in CMP_FLIP.get(type(op), []):
                    emit(f"L{ln} CMP {type(op).__name__}->{alt.__name__}: {ast.unparse(node)[:50]}", path, lambda new, t, p, k, i=i, alt=alt: t.ops.__setitem__(i, alt()))
        elif isinstance(node, ast.BoolOp):
            alt = ast.Or if isinstance(node.op, ast.And) else ast.And
            emit(f"L{ln} BOOL {type(node.op).__name__}->{alt.__name__}: {ast.unparse(node)[:50]}", path, lambda new, t, p, k, alt=alt: setattr(t, "op", alt()))
        elif isinstance(node, ast.BinOp):
            for alt in BIN_FLIP.get(type(node.op), []):
                emit(f"L{ln} ARITH {type(node.op).__name__}->{alt.__name__}: {ast.unparse(node)[:50]}", path, lambda new, t, p, k, alt=alt: setattr(t, "op", alt()))
            if isinstance(node.op, (ast.Mult, ast.Div)):
                def drop(new, t, p, k, side):
                    keep = t.left if side == "right" else t.right
                    field, i = k
                    if i is None:
                        setattr(p, field, keep)
                    else:
                        getattr(p, field)[i] = keep
                emit(f"L{ln} DROP-FACTOR right: {ast.unparse(node)[:50]}", path, lambda new, t, p, k: drop(new, t, p, k, "right"))
                if isinstance(node.op, ast.Mult):
                    emit(f"L{ln} DROP-FACTOR left: {ast.unparse(node)[:50]}", path, lambda new, t, p, k: drop(new, t, p, k, "left"))
        elif isinstance(node, ast.UnaryOp) and isinstance(node.op, (ast.Not, ast.USub)):
            def unwrap(new, t, p, k):
                field, i = k
                if i is None:
                    setattr(p, field, t.operand)
                else:
                    getattr(p, field)[i] = t.operand
            emit(f"L{ln} UNARY-DROP: {ast.unparse(node)[:50]}", path, unwrap)
        elif isinstance(node, ast.Constant) and not isinstance(node.value, (str, bytes)) and node.value is not None and node.value is not Ellipsis:
            v = node.value
            alts = []
            if isinstance(v, bool):
                alts = [not v]
            elif isinstance(v, int):
                alts = [v + 1, v - 1]
            elif isinstance(v, float):
                alts = [v + 1.0, v * 2 if v else 1.0]
            for a in alts:
                emit(f"L{ln} CONST {v!r}->{a!r}", path, lambda new, t, p, k, a=a: setattr(t, "value", a))
        elif isinstance(node, ast.If):
            emit(f"L{ln} NEGATE-IF: {ast.unparse(node.test)[:50]}", path, lambda new, t, p, k: setattr(t, "test", ast.UnaryOp(op=ast.Not(), operand=t.test)))
        elif isinstance(node, ast.Call) and len(node.args) >= 2 and not node.keywords and not any(isinstance(a, ast.Starred) for a in node.args):
            emit(f"L{ln} ARG-SWAP: {ast.unparse(node)[:50]}", path, lambda new, t, p, k: t.args.__setitem__(slice(0, 2), [t.args[1], t.args[0]]))
        if isinstance(node, (ast.Name, ast.Attribute)):
            nm = node.id if isinstance(node, ast.Name) else node.attr
            for a, b in NAME_SWAP:
                for src, dst in ((a, b), (b, a)):
                    if nm == src:
                        if isinstance(node, ast.Name):
                            emit(f"L{ln} NAME {src}->{dst}", path, lambda new, t, p, k, dst=dst: setattr(t, "id", dst))
                        else:
                            emit(f"L{ln} ATTR {src}->{dst}: {ast.unparse(node)[:50]}", path, lambda new, t, p, k, dst=dst: setattr(t, "attr", dst))
    # statement deletion / adjacent swap at every block level
    for node, path, parents in sites + [(fn, [], [])]:
        for field in ("body", "orelse", "finalbody"):
            blk = getattr(node, field, None)
            if not isinstance(blk, list) or not blk or not isinstance(blk[0], ast.stmt):
                continue
            for i, st in enumerate(blk):
                if isinstance(st, ast.Expr) and isinstance(st.value, ast.Constant):
                    continue
                if isinstance(st, (ast.Assign, ast.AugAssign, ast.AnnAssign, ast.Expr, ast.Raise, ast.Continue, ast.Return)) and not (isinstance(st, ast.Raise) and False):
                    def delete(new, t, p, k, field=field, i=i):
                        getattr(t, field)[i] = ast.Pass()
                    emit(f"L{st.lineno} DELETE: {ast.unparse(st)[:60]}", path, delete)
                if i + 1 < len(blk) and isinstance(st, (ast.Assign, ast.AugAssign, ast.Expr)) and isinstance(blk[i + 1], (ast.Assign, ast.AugAssign, ast.Expr)) and not (isinstance(st, ast.Expr) and isinstance(st.value, ast.Constant)):
                    def swap(new, t, p, k, field=field, i=i):
                        b = getattr(t, field)
                        b[i], b[i + 1] = b[i + 1], b[i]
                    emit(f"L{st.lineno} SWAP-STMTS: {ast.unparse(st)[:35]} <-> {ast.unparse(blk[i + 1])[:35]}", path, swap)
    return out


def _render(src: str, fn_old: ast.FunctionDef, fn_new: ast.FunctionDef) -> str:
    lines = src.split("\n")
    start = min([fn_old.lineno] + [d.lineno for d in fn_old.decorator_list]) - 1
    end = fn_old.end_lineno
    text = textwrap.indent(ast.unparse(fn_new), " " * fn_old.col_offset)
    return "\n".join(lines[:start] + text.split("\n") + lines[end:])


def _run(job):
    sys.path.insert(0, VERIF)
    prop, rel, new_src, desc = job
    tmp = tempfile.mkdtemp(prefix="verif-mut-")
    try:
        shutil.copytree(os.path.join(REPO, "tradingenv"), os.path.join(tmp, "tradingenv"), ignore=shutil.ignore_patterns("__pycache__", "*.pyc"))
        with open(os.path.join(tmp, rel), "w", newline="") as f:
            f.write(new_src)
        try:
            ast.parse(new_src)
        except SyntaxError:
            return (desc, "invalid", "")
        from sa.cli import evaluate
        from sa.model import AnalysisError
        try:
            ck, mod, an, viol, kn = evaluate(prop, tmp, "quick")
            if viol:
                return (desc, "killed", f"{viol[0].rule}:{viol[0].name}")
            return (desc, "survived", "")
        except AnalysisError as e:
            return (desc, "killed", "analysis-error")
        except Exception as e:
            return (desc, "killed", f"internal:{type(e).__name__}")
    finally:
        shutil.rmtree(tmp, ignore_errors=True)


def sweep(prop: str, jobs: int = 16, limit: int = None, extra_functions: List[Tuple[str, str]] = ()) -> Dict:
    targets = anchor_functions(prop) + list(extra_functions)
    work = []
    per_fn = {}
    for rel, qual in targets:
        path = os.path.join(REPO, rel)
        if not os.path.exists(path):
            continue
        with open(path, "r", newline="") as f:
            src = f.read().replace("\r\n", "\n")
        tree = ast.parse(src)
        fn = _find(tree, qual)
        if fn is None:
            continue
        ms = mutants_of(fn)
        per_fn[f"{rel}:{qual}"] = len(ms)
        for desc, new in ms:
            work.append((prop, rel, _render(src, fn, new), f"{qual} {desc}"))
    if limit:
        work = work[:limit]
    res = []
    if work:
        with ProcessPoolExecutor(max_workers=jobs) as ex:
            res = list(ex.map(_run, work, chunksize=4))
    killed = [r for r in res if r[1] == "killed"]
    surv = [r for r in res if r[1] == "survived"]
    return {"property": prop, "functions": per_fn, "generated": len(res), "killed": len(killed), "survived": len(surv), "invalid": len(res) - len(killed) - len(surv),
            "kill_ratio": round(len(killed) / max(1, len(killed) + len(surv)), 3), "survivors": [r[0] for r in surv]}


if __name__ == "__main__":
    import argparse
    ap = argparse.ArgumentParser()
    ap.add_argument("props", nargs="+")
    ap.add_argument("--show", type=int, default=400)
    a = ap.parse_args()
    for p in a.props:
        r = sweep(p)
        print(f"== {p}: generated {r['generated']} killed {r['killed']} survived {r['survived']} kill ratio {r['kill_ratio']}")
        for k, v in r["functions"].items():
            print("   ", k, v)
        for s in r["survivors"][: a.show]:
            print("   SURVIVOR", s)
