"""./check <Cxx> [--tier quick|thorough] [--replay path] [--root dir] [--json]

Exit 0: every decided clause holds (known findings printed as KNOWN-FINDING).
Exit 1: VIOLATION property=<id> replay=<path>.
Exit 2: ANALYSIS-ERROR (checker lost its footing; never a verdict).
"""
from __future__ import annotations
import argparse
import importlib
import json
import os
import sys
import time
import traceback

VERIF = os.path.dirname(os.path.dirname(os.path.abspath(__file__)))
sys.path.insert(0, VERIF)

from sa.model import AnalysisError, REPO  # noqa: E402
from sa.analysis import Analysis          # noqa: E402
from sa.report import Checker, load_known, match_known, write_json, norm_text  # noqa: E402


def tree_digest(root: str = None) -> str:
    """sha256 over the package's python sources (path + normalised line endings), to tell the reviewed tree from an edited one."""
    import hashlib
    h = hashlib.sha256()
    base = os.path.join(root or REPO, "tradingenv")
    for dp, dn, fns in os.walk(base):
        dn[:] = sorted(d for d in dn if d != "__pycache__")
        for fn in sorted(fns):
            if fn.endswith(".py"):
                p = os.path.join(dp, fn)
                h.update(os.path.relpath(p, base).encode())
                with open(p, "rb") as f:
                    h.update(f.read().replace(b"\r\n", b"\n"))
    return h.hexdigest()


def tree_is_reviewed() -> bool:
    try:
        with open(os.path.join(VERIF, "sa", "reviewed_tree.sha256")) as f:
            return f.read().strip() == tree_digest()
    except OSError:
        return False


def run_property(prop: str, root: str = None, tier: str = "quick"):
    """Returns (checker, module). Raises AnalysisError."""
    an = Analysis(root)
    mod = importlib.import_module(f"rules.{prop}")
    ck = Checker(prop, an)
    mod.run(ck, an, tier)
    # clauses every property relies on: plain attribute semantics, API defaults, specification tables
    from rules import common
    common.engine_assumptions(ck, an)
    common.defaults_table(ck, an, prop)
    common.state_dependencies(ck, an, prop)
    if prop in ("C01", "C03", "C05", "C13"):
        common.contract_spec_table(ck, an)
    if prop in ("C03", "C11", "C12", "C17"):
        common.allocation_not_shadowed(ck, an, "S0")
    return ck, mod, an


def evaluate(prop: str, root: str = None, tier: str = "quick"):
    """Run the rules and classify: returns dict with violations / known."""
    ck, mod, an = run_property(prop, root, tier)
    known = load_known()
    viol, kn = [], []
    for ob in ck.obs:
        if ob.ok:
            continue
        k = match_known(ob, known)
        if k is not None:
            kn.append((ob, k))
        else:
            viol.append(ob)
    return ck, mod, an, viol, kn


def main(argv=None):
    ap = argparse.ArgumentParser()
    ap.add_argument("prop")
    ap.add_argument("--tier", default=os.environ.get("VERIF_TIER", "quick"), choices=["quick", "thorough"])
    ap.add_argument("--replay", default=None)
    ap.add_argument("--root", default=None)
    ap.add_argument("--no-evidence", action="store_true")
    ap.add_argument("--verbose", "-v", action="store_true")
    args = ap.parse_args(argv)
    prop = args.prop
    seed = int(os.environ.get("VERIF_SEED", "0") or 0)
    t0 = time.time()
    try:
        if args.replay:
            with open(args.replay) as f:
                rp = json.load(f)
            print(f"replaying {rp.get('rule')} at {rp.get('site')} on the current tree")
        ck, mod, an, viol, kn = evaluate(prop, args.root, args.tier)
        selfval = None
        sweep = None
        equiv = None
        reviewed = tree_is_reviewed()
        if args.tier == "thorough" and args.root is None and viol:
            print(f"[{prop}] the property's own check reports violations on this tree: checker self-validation (seeded changes, refactors, rewrite sweeps) is skipped - it is only meaningful on a tree the check passes")
        if args.tier == "thorough" and args.root is None and not viol:
            from sa.selfval import self_validate
            selfval = self_validate(prop, seed)
            if not os.environ.get("VERIF_NO_EQUIV"):
                from sa.equiv import sweep as equivalence_sweep
                equiv = equivalence_sweep(prop)
            if not os.environ.get("VERIF_NO_SWEEP"):
                from sa.mutate import sweep as mutation_sweep
                sweep = mutation_sweep(prop)
        wall = time.time() - t0
        out_lines = []
        for ob, k in kn:
            out_lines.append(f"KNOWN-FINDING: property={prop} {ob.name} {ob.subject} {ob.loc}: {k.get('what', ob.detail)}")
        replay_paths = []
        for i, ob in enumerate(viol):
            rpath = os.path.join(VERIF, "evidence", "replay", f"{prop}-{i}.json")
            if args.root is None:
                write_json(rpath, {"property": prop, "rule": f"{ob.rule}:{ob.name}", "subject": ob.subject,
                                   "site": ob.loc, "construct": ob.construct, "detail": ob.detail,
                                   "witness": ob.witness, "replay": f"./check {prop} --replay {rpath}"})
            replay_paths.append(rpath)
            out_lines.append(f"VIOLATION property={prop} replay={rpath}")
            out_lines.append(f"  {ob.rule}:{ob.name} {ob.subject} @ {ob.loc}: {ob.detail}")
            if ob.construct:
                out_lines.append(f"  construct: {ob.construct[:160]}")
            if ob.witness:
                w = ob.witness if isinstance(ob.witness, list) else [ob.witness]
                for line in w[:12]:
                    out_lines.append(f"    | {line}")
        if not args.no_evidence and args.root is None:
            write_evidence(prop, args.tier, seed, ck, mod, an, viol, kn, wall, selfval, sweep, equiv)
        n_ok = sum(1 for o in ck.obs if o.ok)
        print(f"[{prop}] tier={args.tier} obligations={len(ck.obs)} discharged={n_ok} "
              f"known={len(kn)} violations={len(viol)} functions={an.stats['functions_analysed']} wall={wall:.2f}s")
        if args.verbose:
            for o in ck.obs:
                print(("  ok   " if o.ok else "  FAIL ") + f"{o.rule}:{o.name} {o.subject} @ {o.loc}: {o.detail[:140]}")
        if selfval is not None:
            print(f"[{prop}] self-validation: mutants {selfval['killed']}/{selfval['mutants']} reported, "
                  f"equivalents {selfval['silent']}/{selfval['equivalents']} silent, skipped {selfval['skipped']}")
        if sweep is not None:
            print(f"[{prop}] operator-mutation sweep of the anchor functions (informational): {sweep['killed']}/{sweep['generated']} single-site mutants reported "
                  f"(ratio {sweep['kill_ratio']}); survivors include equivalent mutants and mutants the repository's own tests reject")
        if equiv is not None:
            print(f"[{prop}] equivalence sweep: {equiv['silent']}/{equiv['generated']} behaviour-preserving rewrites of the {len(equiv['functions'])} consulted functions analysed silently")
        for l in out_lines:
            print(l)
        # Checker self-validation failing is the CHECKER's problem, not a verdict on the tree. On the reviewed tree (the one the
        # variants were written against) it fails the run (exit 2); on any other tree the variants may no longer apply cleanly or
        # may interact with the edit, so the outcome is recorded (stdout, evidence) and the verdict is the property check's alone.
        if equiv is not None and equiv["false_alarms"]:
            for d, k, w in equiv["false_alarms"][:20]:
                print(("ANALYSIS-ERROR" if reviewed else "NOTE") + f" checker-self-validation: behaviour-preserving rewrite `{d}` is reported ({k}): {w[:200]}")
            if reviewed:
                return 2
        if selfval is not None and not selfval["ok"]:
            for p in selfval["problems"]:
                print(("ANALYSIS-ERROR" if reviewed else "NOTE") + " checker-self-validation:", p)
            if reviewed:
                return 2
        return 1 if viol else 0
    except AnalysisError as e:
        print(f"ANALYSIS-ERROR property={prop}: {e}")
        return 2
    except Exception:
        print(f"ANALYSIS-ERROR property={prop}: internal error")
        traceback.print_exc()
        return 2


def write_evidence(prop, tier, seed, ck, mod, an, viol, kn, wall, selfval, sweep=None, equiv=None):
    res, tot = an.call_stats()
    n_ok = sum(1 for o in ck.obs if o.ok)
    distinct = len({(o.rule, o.name) for o in ck.obs})
    samples = [o.as_dict() for o in ck.obs if not o.ok][:10] + [o.as_dict() for o in ck.obs if o.ok][:25]
    cov = {
        "explanation": getattr(mod, "EXPLANATION", ""),
        "obligations": len(ck.obs),
        "discharged": n_ok,
        "evaluations": len(ck.obs),
        "distinct_nontrivial": distinct,
        "rule": "each obligation is one rule instance (template:slots) evaluated at one site of /repo's current source; "
                "distinct = distinct (template, instance) pairs with at least one site",
        "samples": samples,
        "exhaustive": True,
        "checker_cmd": f"./check {prop} --tier {tier}",
        "trusted_base": TRUSTED,
        "modules": [{"path": m.relpath, "sha256": m.sha256} for m in an.prog.modules.values() if not m.name.startswith("_fixture")],
        "functions_analysed": an.stats["functions_analysed"],
        "call_sites_resolved": res,
        "call_sites_total": tot,
        "floors": ck.floors,
        "known_findings": [{"rule": o.name, "subject": o.subject, "site": o.loc, "what": k.get("what")} for o, k in kn],
        "exemptions": ck.exemptions,
        "decided_clauses": getattr(mod, "DECIDED", []),
        "not_decided": getattr(mod, "NOT_DECIDED", []),
        "notes": ck.notes,
    }
    if selfval is not None:
        cov["self_validation"] = {k: v for k, v in selfval.items() if k != "details"}
        cov["self_validation_details"] = selfval.get("details", [])[:80]
    if sweep is not None:
        cov["operator_mutation_sweep"] = {"note": "informational sensitivity measurement: every single-site operator mutant (comparison flip, boolean flip, arithmetic flip, dropped factor, "
                                                  "constant +-1, negated condition, swapped arguments, swapped sibling names, deleted statement, swapped adjacent statements) of the property's anchor "
                                                  "functions, analysed statically; survivors include equivalent mutants and mutants the repository's own tests reject",
                                          "functions": sweep["functions"], "generated": sweep["generated"], "reported": sweep["killed"], "not_reported": sweep["survived"], "ratio": sweep["kill_ratio"],
                                          "not_reported_sample": sweep["survivors"][:60]}
    if equiv is not None:
        cov["equivalence_sweep"] = {"note": "every function the rules consulted, rewritten one site at a time with behaviour-preserving rewrites (rename a local, flip a comparison, invert an if, expand an augmented "
                                            "assignment, hoist a temporary, else-after-return, split a chained comparison, reword a message ...) and analysed statically: a report on any of them is a false alarm "
                                            "of the checker and fails the run as ANALYSIS-ERROR",
                                    "functions": len(equiv["functions"]), "generated": equiv["generated"], "silent": equiv["silent"], "false_alarms": equiv["false_alarms"][:20]}
    ev = {
        "property_id": prop, "tier": tier, "seed": seed, "level": "other",
        "coverage": cov,
        "assumptions": TRUSTED + list(getattr(mod, "ASSUMPTIONS", [])),
        "wall_s": round(wall, 3),
        "violations": len(viol),
    }
    write_json(os.path.join(VERIF, "evidence", f"{prop}.json"), ev)


TRUSTED = [
    "CPython ast module parses /repo/tradingenv as the interpreter would",
    "receiver-type supplement table in sa/resolve.py (one reviewed line per receiver)",
    "frozen facts about gymnasium / pandas / numpy / bisect / deque used by individual rules",
    "no monkey-patching and no subclasses outside the package (user extensions are only covered through base-class code)",
]

if __name__ == "__main__":
    sys.exit(main())
