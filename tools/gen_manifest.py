#!/usr/bin/env python3
"""Regenerate MANIFEST.json from the rule modules that exist."""
import importlib
import json
import os
import sys

VERIF = os.path.dirname(os.path.dirname(os.path.abspath(__file__)))
sys.path.insert(0, VERIF)

props = [json.loads(l) for l in open(os.path.join(VERIF, "properties.jsonl"))]
checks, na = [], []
for p in props:
    pid = p["id"]
    path = os.path.join(VERIF, "rules", f"{pid}.py")
    if not os.path.exists(path):
        na.append({"property_id": pid, "reason": "check not built yet (build in progress)"})
        continue
    mod = importlib.import_module(f"rules.{pid}")
    if getattr(mod, "NOT_APPLICABLE", None):
        na.append({"property_id": pid, "reason": mod.NOT_APPLICABLE})
        continue
    checks.append({
        "property_id": pid,
        "quick_cmd": f"./check {pid} --tier quick",
        "thorough_cmd": f"./check {pid} --tier thorough",
        "evidence_file": f"/verif/evidence/{pid}.json",
        "replay_cmd_template": f"./check {pid} --replay {{path}}",
        "engine": "sa",
        "technique": getattr(mod, "TECHNIQUE", "repository-specific static analysis: AST/CFG dominance, call-graph and dataflow rules"),
        "level_claimed": {
            "category": "other",
            "text": ("Static analysis of /repo's current source (no execution, no solver). " + mod.EXPLANATION +
                     " NOT decided: " + "; ".join(getattr(mod, "NOT_DECIDED", [])) + "."),
            "design_ref": f"DESIGN.md §4 {pid}",
        },
        "level_note": ("Trusted base: CPython ast; the receiver-type supplement table (sa/resolve.py); frozen facts about "
                       "gymnasium/pandas/numpy/bisect/deque; no monkey-patching; user subclasses outside the package are covered "
                       "only through base-class code. " + " ".join(getattr(mod, "ASSUMPTIONS", []))),
    })

manifest = {
    "version": 1,
    "setup_cmd": "/venv/bin/python -B -m sa.bootstrap || python3 -B -m sa.bootstrap",
    "hooks": {
        "guard": "TRADINGENV_VERIF",
        "enable": "not needed: the checks read /repo's source and never execute it, so no hook or instrumentation exists",
        "baseline_off_cmd": "cd /repo && /venv/bin/python -m pytest -ra -q -p no:cacheprovider --timeout=900 --continue-on-collection-errors",
        "source_commits": [],
        "add_only": True,
    },
    "engines": [{
        "name": "sa", "path": "/verif/sa",
        "serves_properties": [c["property_id"] for c in checks],
        "kind_free_text": "repository-specific static analysis over ast / statement CFG (dominators, path counts) / resolved call graph / reaching definitions / polynomial value ids / units-of-measure and sign domains; standard library only",
    }],
    "checks": checks,
    "notes": ("All checks are static: they parse /repo/tradingenv on every run and report file:line constructs. Exit 2 + ANALYSIS-ERROR "
              "means the checker lost its footing (missing subject, unsupported syntax), never a verdict. Genuine defects found are in "
              "known_findings.json (fixed ones as 'fixed:' entries with the /repo commit)."),
    "not_applicable": na,
}
with open(os.path.join(VERIF, "MANIFEST.json"), "w") as f:
    json.dump(manifest, f, indent=1)
print("claimed:", [c["property_id"] for c in checks])
print("not applicable:", [n["property_id"] for n in na])
