#!/usr/bin/env python3
"""Re-run every check against every seeded change (static analysis of a
scratch copy with the patch applied) and rewrite detected_by / expect in each
seeded/<id>/meta.json. Prints a detection matrix."""
import json
import os
import sys
from concurrent.futures import ProcessPoolExecutor

VERIF = os.path.dirname(os.path.dirname(os.path.abspath(__file__)))
sys.path.insert(0, VERIF)
from sa.selfval import run_variant  # noqa


def main():
    sd = os.path.join(VERIF, "seeded")
    props = [f"C{i:02d}" for i in range(1, 20) if os.path.exists(os.path.join(VERIF, "rules", f"C{i:02d}.py"))]
    jobs = []
    for d in sorted(os.listdir(sd)):
        patch = os.path.join(sd, d, "patch.diff")
        if os.path.exists(patch) and (len(sys.argv) < 2 or sys.argv[1] in d):      # optional substring filter, e.g. "-r10-"
            jobs.append({"id": d, "prop": d.split("-")[0], "props": props, "patch": patch})
    with ProcessPoolExecutor(max_workers=16) as ex:
        results = list(ex.map(run_variant, jobs))
    missed = []
    for j, r in zip(jobs, results):
        mp = os.path.join(sd, j["id"], "meta.json")
        m = json.load(open(mp))
        det = sorted({v.split(":")[0] for v in r.get("violations", [])})
        m["detected_by"] = det
        m["reports"] = r.get("violations", [])[:6]
        m["expect"] = "fire" if det else "miss"
        if r.get("analysis_error"):
            m["analysis_error"] = r["analysis_error"][:300]
        json.dump(m, open(mp, "w"), indent=1)
        own = m.get("property")
        flag = "OWN" if own in det else ("other" if det else "MISSED")
        print(f"{j['id']:10s} {flag:7s} {','.join(det):30s} {m.get('title', '')[:70]}")
        if r.get("analysis_error"):
            print("     analysis-error:", r["analysis_error"][:200])
        if not det:
            missed.append(j["id"])
    print("missed:", missed)


if __name__ == "__main__":
    main()
