#!/usr/bin/env python3
"""Verify a sub-agent's seeded change and store it under /verif/seeded/<id>/.

usage: ingest_seeded.py <src dir with patch.diff demo_test.py meta.json> <id> [--skip-suite]

Confirms, in a scratch worktree of /repo outside /repo and /verif:
  1. the patch applies to HEAD and the package still imports;
  2. the unedited suite gives the baseline result (641 passed, 5 failed readme);
  3. the demonstration fails with the change and passes without it.
Then records which of /verif's checks report the change (static analysis of a
scratch copy of the package with the patch applied).
"""
import json
import os
import re
import shutil
import subprocess
import sys
import tempfile

VERIF = os.path.dirname(os.path.dirname(os.path.abspath(__file__)))
sys.path.insert(0, VERIF)
PY = "/venv/bin/python"


def sh(cmd, cwd=None, timeout=1800):
    r = subprocess.run(cmd, shell=True, cwd=cwd, capture_output=True, text=True, timeout=timeout)
    return r.returncode, (r.stdout + r.stderr)


def main():
    src, sid = sys.argv[1], sys.argv[2]
    skip_suite = "--skip-suite" in sys.argv
    patch = os.path.join(src, "patch.diff")
    demo = os.path.join(src, "demo_test.py")
    meta = json.load(open(os.path.join(src, "meta.json")))
    wt = tempfile.mkdtemp(prefix="verif-seed-")
    os.rmdir(wt)
    res = {"id": sid, "property": meta.get("property")}
    try:
        rc, out = sh(f"git -C /repo worktree add -q --detach {wt} HEAD")
        assert rc == 0, out
        rc, out = sh(f"git apply --check {patch}", cwd=wt)
        res["applies"] = rc == 0
        if rc != 0:
            res["error"] = out[-300:]
            return res
        shutil.copy(demo, os.path.join(wt, "_demo_test.py"))
        # demo without change
        rc0, out0 = sh(f"{PY} -m pytest -q -p no:cacheprovider --no-cov --deselect _demo_test.py::test_library_under_test_is_the_worktree _demo_test.py 2>&1 | tail -3", cwd=wt)
        res["demo_without"] = out0.strip().splitlines()[-1] if out0.strip() else ""
        sh(f"git apply {patch}", cwd=wt)
        rc1, out1 = sh(f"{PY} -m pytest -q -p no:cacheprovider --no-cov --deselect _demo_test.py::test_library_under_test_is_the_worktree _demo_test.py 2>&1 | tail -3", cwd=wt)
        res["demo_with"] = out1.strip().splitlines()[-1] if out1.strip() else ""
        res["demo_ok"] = (" failed" in res["demo_with"] or "error" in res["demo_with"].lower()) and " passed" in res["demo_without"] and " failed" not in res["demo_without"]
        if not skip_suite:
            os.remove(os.path.join(wt, "_demo_test.py"))
            rc2, out2 = sh(f"{PY} -m pytest -q -p no:cacheprovider -n 6 --timeout=900 --continue-on-collection-errors 2>&1 | tail -3", cwd=wt)
            line = out2.strip().splitlines()[-1] if out2.strip() else ""
            res["suite_with"] = line
            res["suite_ok"] = bool(re.search(r"5 failed, 641 passed", line))
        # which checks fire
        from sa.selfval import run_variant
        props = [f"C{i:02d}" for i in range(1, 20) if os.path.exists(os.path.join(VERIF, "rules", f"C{i:02d}.py"))]
        r = run_variant({"id": sid, "prop": meta.get("property"), "props": props, "patch": patch})
        res["checks"] = r
        det = sorted({v.split(":")[0] for v in r.get("violations", [])})
        res["detected_by"] = det
        return res
    finally:
        sh(f"git -C /repo worktree remove --force {wt}")
        shutil.rmtree(wt, ignore_errors=True)
        out = res
        ok = out.get("applies") and out.get("demo_ok") and (skip_suite or out.get("suite_ok"))
        if ok:
            dst = os.path.join(VERIF, "seeded", sid)
            os.makedirs(dst, exist_ok=True)
            shutil.copy(patch, os.path.join(dst, "patch.diff"))
            shutil.copy(demo, os.path.join(dst, "demo_test.py"))
            m = dict(meta)
            m["confirmed"] = {"patch_applies": True, "suite_with_change": out.get("suite_with", "not re-run"), "demo_with_change": out.get("demo_with"),
                              "demo_without_change": out.get("demo_without"),
                              "how": "scratch git worktree of /repo HEAD; baseline pytest command with -n 6; demo run before and after `git apply`"}
            m["detected_by"] = out.get("detected_by", [])
            m["reports"] = out.get("checks", {}).get("violations", [])[:6]
            m["expect"] = "fire" if m["detected_by"] else "miss"
            json.dump(m, open(os.path.join(dst, "meta.json"), "w"), indent=1)
        print(json.dumps({k: v for k, v in out.items() if k != "checks"}, indent=1))
        if out.get("checks"):
            for v in out["checks"].get("violations", [])[:5]:
                print("   REPORT:", v[:200])
            if out["checks"].get("analysis_error"):
                print("   ANALYSIS-ERROR:", out["checks"]["analysis_error"][:300])


if __name__ == "__main__":
    main()
