#!/usr/bin/env python3
"""Freeze how the reviewed tree spells imported names (sa/import_spellings.json).

For every module of /repo/tradingenv: fully qualified name -> (local spelling, import statement). Used by
sa/normalise.py::respell_imports so that `from numpy import isnan; isnan(x)` and `import numpy as np; np.isnan(x)`
are the same program for the rules (which were written against the reviewed spelling). Run once per review of the
tree; never at check time."""
import ast, json, os, sys
from collections import Counter
V = os.path.dirname(os.path.dirname(os.path.abspath(__file__)))
sys.path.insert(0, V)
from sa.normalise import import_bindings
REPO = "/repo"
out = {"modules": {}, "global": {}}
votes = {}
for dp, dn, fns in os.walk(os.path.join(REPO, "tradingenv")):
    dn[:] = sorted(d for d in dn if d != "__pycache__")
    for fn in sorted(fns):
        if not fn.endswith(".py"):
            continue
        p = os.path.join(dp, fn)
        rel = os.path.relpath(p, REPO)
        modname = rel[:-3].replace(os.sep, ".")
        is_pkg = modname.endswith(".__init__")
        if is_pkg:
            modname = modname[:-9]
        tree = ast.parse(open(p, "rb").read())
        b = import_bindings(tree, modname, is_pkg)
        tab = {}
        for local, (fq, stmt) in b.items():
            tab.setdefault(fq, [local, stmt])
            votes.setdefault(fq, Counter())[(local, stmt)] += 1
        out["modules"][rel] = tab
for fq, c in votes.items():
    (local, stmt), _ = c.most_common(1)[0]
    out["global"][fq] = [local, stmt]
json.dump(out, open(os.path.join(V, "sa", "import_spellings.json"), "w"), indent=1, sort_keys=True)
print(len(out["modules"]), "modules;", len(out["global"]), "names")

# module-level names of the reviewed tree (sa/known_constants.json): a module-level literal constant that is NOT in this list
# is new, and is inlined at its uses by sa/normalise.py::inline_new_constants
names = {}
for dp, dn, fns in os.walk(os.path.join(REPO, "tradingenv")):
    dn[:] = sorted(d for d in dn if d != "__pycache__")
    for fn in sorted(fns):
        if fn.endswith(".py"):
            p = os.path.join(dp, fn)
            t = ast.parse(open(p, "rb").read())
            s_ = set()
            for st in t.body:
                if isinstance(st, (ast.Assign, ast.AnnAssign)):
                    for tg in (st.targets if isinstance(st, ast.Assign) else [st.target]):
                        s_ |= {n.id for n in ast.walk(tg) if isinstance(n, ast.Name)}
            names[os.path.relpath(p, REPO)] = sorted(s_)
json.dump(names, open(os.path.join(V, "sa", "known_constants.json"), "w"), indent=1, sort_keys=True)

# reviewed signatures (sa/known_signatures.json): qualified function name -> parameter names; a parameter that is not in the
# list, has a literal default and is only ever passed that default inside the package is bound to it (sa/normalise.py::bind_new_parameters)
sigs = {}
for dp, dn, fns in os.walk(os.path.join(REPO, "tradingenv")):
    dn[:] = sorted(d for d in dn if d != "__pycache__")
    for fn in sorted(fns):
        if fn.endswith(".py"):
            p = os.path.join(dp, fn)
            rel = os.path.relpath(p, REPO)
            modname = rel[:-3].replace(os.sep, ".")
            if modname.endswith(".__init__"):
                modname = modname[:-9]
            t = ast.parse(open(p, "rb").read())
            for node in t.body:
                if isinstance(node, ast.FunctionDef):
                    sigs[f"{modname}:{node.name}"] = [a.arg for a in node.args.posonlyargs + node.args.args + node.args.kwonlyargs]
                elif isinstance(node, ast.ClassDef):
                    for s_ in node.body:
                        if isinstance(s_, ast.FunctionDef):
                            sigs[f"{modname}:{node.name}.{s_.name}"] = [a.arg for a in s_.args.posonlyargs + s_.args.args + s_.args.kwonlyargs]
json.dump(sigs, open(os.path.join(V, "sa", "known_signatures.json"), "w"), indent=1, sort_keys=True)
print(len(sigs), "signatures")

# attribute names of the reviewed tree (sa/known_attributes.json): every name stored through an attribute or bound at class level.
# An attribute that is NOT in this list is new state; if every store sets it to one literal it is folded (sa/normalise.py::fold_constant_attributes)
attrs = set()
for dp, dn, fns in os.walk(os.path.join(REPO, "tradingenv")):
    dn[:] = sorted(d for d in dn if d != "__pycache__")
    for fn in sorted(fns):
        if fn.endswith(".py"):
            t = ast.parse(open(os.path.join(dp, fn), "rb").read())
            for node in ast.walk(t):
                if isinstance(node, ast.Attribute) and isinstance(node.ctx, (ast.Store, ast.Del)):
                    attrs.add(node.attr)
                elif isinstance(node, ast.ClassDef):
                    for s_ in node.body:
                        if isinstance(s_, (ast.Assign, ast.AnnAssign)):
                            for tg in (s_.targets if isinstance(s_, ast.Assign) else [s_.target]):
                                attrs |= {n.id for n in ast.walk(tg) if isinstance(n, ast.Name)}
json.dump(sorted(attrs), open(os.path.join(V, "sa", "known_attributes.json"), "w"), indent=1)
print(len(attrs), "attribute names")

# digest of the reviewed tree (sa/reviewed_tree.sha256): on this very tree a failing checker self-validation fails the thorough run
sys.path.insert(0, V)
from sa.cli import tree_digest
open(os.path.join(V, "sa", "reviewed_tree.sha256"), "w").write(tree_digest() + "\n")
