#!/usr/bin/env python3
"""Development aid: operator-mutation sweep of a property's anchor functions,
then run the repository's own tests on each mutant the static check did NOT
report. Mutants that also pass the tests ("live survivors") are the interesting
ones: behaviour changes nothing notices. Output: /tmp/triage_<prop>.json

(The registered checks never run tests; this tool is only used to find blind
spots of the rules while developing them.)"""
import ast, json, os, shutil, subprocess, sys, tempfile
from concurrent.futures import ProcessPoolExecutor
VERIF = os.path.dirname(os.path.dirname(os.path.abspath(__file__)))
sys.path.insert(0, VERIF)
from sa import mutate

REPO = "/repo"


def test_one(job):
    rel, new_src, desc = job
    tmp = tempfile.mkdtemp(prefix="verif-tri-")
    try:
        for d in ("tradingenv", "tests"):
            shutil.copytree(os.path.join(REPO, d), os.path.join(tmp, d), ignore=shutil.ignore_patterns("__pycache__", "*.pyc"))
        for f in ("setup.cfg", "pyproject.toml", "setup.py", "README.md"):
            if os.path.exists(os.path.join(REPO, f)):
                shutil.copy(os.path.join(REPO, f), tmp)
        with open(os.path.join(tmp, rel), "w", newline="") as f:
            f.write(new_src)
        env = dict(os.environ, PYTHONPATH=tmp)
        for suite in (["tests/unit", "tests/integration"], ["tests/regression"]):
            r = subprocess.run(["/venv/bin/python", "-m", "pytest", "-x", "-q", "-p", "no:cacheprovider", "--no-cov", "-o", "addopts=", "--timeout=600"] + suite,
                               cwd=tmp, env=env, capture_output=True, text=True, timeout=1500)
            tail = (r.stdout.strip().splitlines() or [""])[-1]
            if r.returncode != 0:
                return (desc, "test-killed", " ".join(suite) + ": " + tail[:120])
        # doctests in the package (the baseline command collects them through setup.cfg)
        r = subprocess.run(["/venv/bin/python", "-m", "pytest", "-x", "-q", "-p", "no:cacheprovider", "--no-cov", "-o", "addopts=", "--doctest-modules", "tradingenv", "--timeout=600"],
                           cwd=tmp, env=env, capture_output=True, text=True, timeout=1500)
        if r.returncode != 0:
            return (desc, "test-killed", "doctests: " + (r.stdout.strip().splitlines() or [""])[-1][:120])
        return (desc, "LIVE", "")
    except Exception as e:
        return (desc, "error", str(e)[:100])
    finally:
        shutil.rmtree(tmp, ignore_errors=True)


def main():
    prop = sys.argv[1]
    workers = int(sys.argv[2]) if len(sys.argv) > 2 else 6
    targets = mutate.anchor_functions(prop)
    work = []
    for rel, qual in targets:
        with open(os.path.join(REPO, rel), "r", newline="") as f:
            src = f.read().replace("\r\n", "\n")
        tree = ast.parse(src)
        fn = mutate._find(tree, qual)
        if fn is None:
            continue
        for desc, new in mutate.mutants_of(fn):
            work.append((prop, rel, mutate._render(src, fn, new), f"{qual} {desc}"))
    with ProcessPoolExecutor(16) as ex:
        res = list(ex.map(mutate._run, work, chunksize=4))
    surv = [(w[1], w[2], w[3]) for w, r in zip(work, res) if r[1] == "survived"]
    print(f"{prop}: {len(work)} mutants, {len(surv)} not reported by the static check; running the tests on those", flush=True)
    with ProcessPoolExecutor(workers) as ex:
        tri = list(ex.map(test_one, surv))
    live = [t for t in tri if t[1] == "LIVE"]
    out = {"property": prop, "mutants": len(work), "static_killed": len(work) - len(surv), "static_survivors": len(surv), "test_killed": sum(1 for t in tri if t[1] == "test-killed"),
           "live": [t[0] for t in live], "errors": [t for t in tri if t[1] == "error"]}
    json.dump(out, open(f"/tmp/triage_{prop}.json", "w"), indent=1)
    print(f"{prop}: static-killed {out['static_killed']}, test-killed {out['test_killed']}, LIVE {len(live)}")
    for t in live:
        print("  LIVE", t[0])


if __name__ == "__main__":
    main()
