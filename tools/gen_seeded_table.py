#!/usr/bin/env python3
"""Rewrite DESIGN.md appendix D (between the markers) from seeded/*/meta.json."""
import json, os, re, glob
V = os.path.dirname(os.path.dirname(os.path.abspath(__file__)))
rows = []
for m in sorted(glob.glob(os.path.join(V, "seeded", "*", "meta.json"))):
    d = json.load(open(m))
    sid = os.path.basename(os.path.dirname(m))
    det = d.get("detected_by", [])
    rep = d.get("reports", [])
    own = [r for r in rep if r.startswith(d.get("property", "?") + ":")]
    first = (own or rep or [""])[0]
    rule = first.split(" ")[0] if first else "-"
    title = (d.get("title") or "").replace("|", "/")[:110]
    needs = (d.get("needs_to_manifest") or "").replace("|", "/").replace("\n", " ")[:120]
    rows.append(f"| {sid} | {title} | {needs} | {', '.join(det) or '**missed**'} | `{rule}` |")
HEAD = "| id | change (independent sub-agent) | needs to manifest | reported by | first rule of the own property |\n|---|---|---|---|---|\n"
r1 = [r for r in rows if "-r2-" not in r.split("|")[1] and "-r4-" not in r.split("|")[1] and "-r6-" not in r.split("|")[1] and "-r8-" not in r.split("|")[1] and "-r10-" not in r.split("|")[1]]
r10 = [r for r in rows if "-r10-" in r.split("|")[1]]
r8 = [r for r in rows if "-r8-" in r.split("|")[1]]
r6 = [r for r in rows if "-r6-" in r.split("|")[1]]
r4 = [r for r in rows if "-r4-" in r.split("|")[1]]
r2 = [r for r in rows if "-r2-" in r.split("|")[1]]
table = ("| id | change (independent sub-agent) | needs to manifest | reported by | first rule of the own property |\n|---|---|---|---|---|\n" + "\n".join(r1) + "\n")
p = os.path.join(V, "DESIGN.md")
s = open(p).read()
a, b = "<!-- SEEDED-TABLE-BEGIN -->", "<!-- SEEDED-TABLE-END -->"
if a in s:
    s = s[: s.index(a) + len(a)] + "\n" + table + s[s.index(b):]
a, b = "<!-- SEEDED2-TABLE-BEGIN -->", "<!-- SEEDED2-TABLE-END -->"
if a in s:
    s = s[: s.index(a) + len(a)] + "\n" + HEAD + "\n".join(r2) + "\n" + s[s.index(b):]
a, b = "<!-- SEEDED4-TABLE-BEGIN -->", "<!-- SEEDED4-TABLE-END -->"
if a in s:
    s = s[: s.index(a) + len(a)] + "\n" + HEAD + "\n".join(r4) + "\n" + s[s.index(b):]
a, b = "<!-- SEEDED6-TABLE-BEGIN -->", "<!-- SEEDED6-TABLE-END -->"
if a in s:
    s = s[: s.index(a) + len(a)] + "\n" + HEAD + "\n".join(r6) + "\n" + s[s.index(b):]
a, b = "<!-- SEEDED8-TABLE-BEGIN -->", "<!-- SEEDED8-TABLE-END -->"
if a in s:
    s = s[: s.index(a) + len(a)] + "\n" + HEAD + "\n".join(r8) + "\n" + s[s.index(b):]
a, b = "<!-- SEEDED10-TABLE-BEGIN -->", "<!-- SEEDED10-TABLE-END -->"
if a in s:
    s = s[: s.index(a) + len(a)] + "\n" + HEAD + "\n".join(r10) + "\n" + s[s.index(b):]
open(p, "w").write(s)
print(len(rows), "rows")
