"""Positive-control fixture (analysed together with /repo, never imported).

An observer that has both a process_* callback and a portfolio-weight parse:
keeps the exempt edge family IEvent.notify -> Observer.__call__ -> ... ->
Broker.holdings_weights alive, so the C09-S5 exemption is never vacuous."""
from tradingenv.features import Feature


class _FixtureWeightObserver(Feature):
    def process_EventNBBO(self, event):
        pass

    def parse(self):
        return self.broker.holdings_weights()
