"""Positive-control fixture for C10-S1 (GLOBAL): a function body that stores
into a class object. Analysed on every run, never imported."""


class _FixtureClock:
    now = None


def _fixture_set_clock(t):
    _FixtureClock.now = t
