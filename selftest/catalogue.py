"""Self-validation catalogue: text splices of the *current* tree.

expect='fire'   : the change breaks a decided clause; the property's check must
                  report it (optionally by the named rule).
expect='silent' : behaviour-preserving rewrite; the check must stay silent.
A variant whose anchor text is not found exactly once is skipped and counted.
"""

BR = "tradingenv/broker/broker.py"
TR = "tradingenv/broker/trade.py"
FE = "tradingenv/broker/fees.py"
RB = "tradingenv/broker/rebalancing.py"
AL = "tradingenv/broker/allocation.py"
TK = "tradingenv/broker/track_record.py"
EX = "tradingenv/exchange.py"
CO = "tradingenv/contracts.py"
EV = "tradingenv/events.py"
TM = "tradingenv/transmitter.py"
EN = "tradingenv/env.py"
SP = "tradingenv/spaces.py"
RW = "tradingenv/rewards.py"
ST = "tradingenv/state.py"
FT = "tradingenv/features.py"
LB = "tradingenv/library.py"
ME = "tradingenv/metrics.py"

CATALOGUE = []


def M(prop, id, edits, rule=None):
    if isinstance(edits, tuple):
        edits = [edits]
    CATALOGUE.append({"prop": prop, "id": f"{prop}/{id}", "edits": edits, "expect": "fire", "rule": rule})


def E(prop, id, edits):
    if isinstance(edits, tuple):
        edits = [edits]
    CATALOGUE.append({"prop": prop, "id": f"{prop}/{id}", "edits": edits, "expect": "silent", "rule": None})


# ------------------------------------------------------------------ C09
M("C09", "M1-strict", (BR, "if raise_if_broke and nlv <= 0:", "if raise_if_broke and nlv < 0:"), "S1.nonpositive-raises")
M("C09", "M2-no-done-guard", (EN, "        if self._done:\n            raise EndOfEpisodeError(\n                \"The current episode has ended. To start a new episode use \"\n                \"TradingEnv.reset().\"\n            )\n        self._queue_actions.appendleft(action)", "        self._queue_actions.appendleft(action)"), "S4.done-guard")
M("C09", "M3-wrong-except", (EN, "        except EndOfEpisodeError:\n            info = dict()", "        except ValueError:\n            info = dict()"), "S3")
M("C09", "M4-default-false", (BR, "def net_liquidation_value(self, raise_if_broke: bool = True)", "def net_liquidation_value(self, raise_if_broke: bool = False)"), "S1.default-raises")
M("C09", "M5-new-unguarded-valuation", (EN, "        self._process_nonlatent_events()\n        reward =", "        self._process_nonlatent_events()\n        self.broker.holdings_weights()\n        reward ="), "S5.no-escape")
M("C09", "M6-guard-late", (EN, "        if self._done:\n            raise EndOfEpisodeError(\n                \"The current episode has ended. To start a new episode use \"\n                \"TradingEnv.reset().\"\n            )\n        self._queue_actions.appendleft(action)\n        action = self._queue_actions.pop()",
                           "        self._queue_actions.appendleft(action)\n        action = self._queue_actions.pop()\n        if self._done:\n            raise EndOfEpisodeError(\n                \"The current episode has ended. To start a new episode use \"\n                \"TradingEnv.reset().\"\n            )"), "S4.guard-first")
M("C09", "M7-handler-forgets-done", (EN, "            info = dict()\n            self._done = True", "            info = dict()"), "S3.handler-ends-episode")
M("C09", "M8-trades-before-valuation", (BR, "        rebalancing.context_pre = self.context()\n        rebalancing.trades = rebalancing.make_trades(self)\n        for trade in rebalancing.trades:\n            self.transact(trade)",
                                         "        rebalancing.trades = rebalancing.make_trades(self)\n        for trade in rebalancing.trades:\n            self.transact(trade)\n        rebalancing.context_pre = self.context()"), None)
M("C09", "M9-step-clears-done", (EN, "        self._process_nonlatent_events()\n        reward =", "        self._process_nonlatent_events()\n        self._done = False\n        reward ="), "S4.done-values")
M("C09", "M10-extra-condition", (BR, "if raise_if_broke and nlv <= 0:", "if raise_if_broke and nlv <= 0 and len(self.track_record) > 0:"), "S1")
E("C09", "E1-not-gt", (BR, "if raise_if_broke and nlv <= 0:", "if raise_if_broke and not (nlv > 0):"))
E("C09", "E2-handler-reordered", (EN, "            info = dict()\n            self._done = True", "            self._done = True\n            info = dict()"))
E("C09", "E3-local-alias", (BR, "        nlv = sum(holdings_values.values())\n        if raise_if_broke and nlv <= 0:", "        nlv = sum(holdings_values.values())\n        broke = nlv <= 0\n        if raise_if_broke and broke:"))

# ------------------------------------------------------------------ C14
M("C14", "M1-no-alive-guard", (EX, "        if book.is_alive:\n            book.update(event)", "        book.update(event)"), "S3.alive-guard")
M("C14", "M2-dead-before-reinit", (EX, "        self.__init__()\n        self.history = history\n        self.time = event.time\n        self.is_alive = False", "        self.is_alive = False\n        self.__init__()\n        self.history = history\n        self.time = event.time"), "S3")
M("C14", "M3-drop-history-append", (EX, "        self.history[\"bid_size\"].append(self.bid_size)\n", ""), "S1.history-bid_size")
M("C14", "M4-swap-bid-ask", (EX, "        self.bid_price = event.bid_price\n", "        self.bid_price = event.ask_price\n"), "S1.store-bid_price")
M("C14", "M5-update-all-books", (EX, "        if book.is_alive:\n            book.update(event)", "        for book in self._books.values():\n            if book.is_alive:\n                book.update(event)"), "S2")
M("C14", "M6-acq-swapped", (EX, "        if quantity < 0:\n            return self.bid_price\n        elif quantity > 0:\n            return self.ask_price", "        if quantity < 0:\n            return self.ask_price\n        elif quantity > 0:\n            return self.bid_price"), "S4.acq")
M("C14", "M7-zero-at-ask", (EX, "        elif quantity == 0:\n            return self.mid_price", "        elif quantity == 0:\n            return self.ask_price"), "S4.acq-zero")
M("C14", "M8-mid-history-stale", (EX, "        self.bid_price = event.bid_price\n        self.ask_price = event.ask_price\n", "        self.history[\"mid_price\"].append(self.mid_price)\n        self.bid_price = event.bid_price\n        self.ask_price = event.ask_price\n"), "S1.history")
M("C14", "M9-liq-same-sign", (EX, "        return self.acq_price(-quantity)", "        return self.acq_price(quantity)"), "S4.liq-is-opposite")
M("C14", "M10-terminate-keeps-quotes", (EX, "        history = self.history\n        self.__init__()\n        self.history = history", "        history = self.history\n        bid = self.bid_price\n        self.__init__()\n        self.bid_price = bid\n        self.history = history"), "S3.no-price-after-death")
M("C14", "M11-terminate-loses-history", (EX, "        self.__init__()\n        self.history = history\n", "        self.__init__()\n"), "S3.history-kept")
M("C14", "M12-getitem-raw-key", (EX, "        if isinstance(key, AbstractContract):\n            key = key.static_hashing()  # TODO: Test\n", ""), "S5.getitem-normalises-key")
M("C14", "M13-shared-book", (EX, "        self._books = defaultdict(LimitOrderBook)", "        _shared = LimitOrderBook()\n        self._books = defaultdict(lambda: _shared)"), "S2.fresh-book-per-key")
M("C14", "M14-nan-to-mid", (EX, "        else:\n            raise ValueError(\"Unexpected sign: {}\".format(quantity))", "        else:\n            return self.mid_price"), "S4.acq-nan")
M("C14", "M15-hash-by-short-symbol", (CO, "        different contracts have to have different hash number.\"\"\"\n        return hash(self.symbol)", "        different contracts have to have different hash number.\"\"\"\n        return hash(self.symbol_short)"), "S5.hash-by-symbol")
M("C14", "M16-mid-weighted", (EX, "        return (self.ask_price + self.bid_price) / 2", "        return (self.ask_price + self.bid_price * 2) / 3"), "S4.mid")
M("C14", "M17-feature-updates-book", (LB, "        w = [self.exchange[contract].mid_price for contract in self.contracts]\n        return np.array([w])", "        w = [self.exchange[contract].mid_price for contract in self.contracts]\n        for contract in self.contracts:\n            self.exchange[contract].update(self.exchange[contract])\n        return np.array([w])"), "S3.update-callers")
M("C14", "M18-update-skips-size-on-branch", (EX, "        self.history[\"ask_size\"].append(self.ask_size)", "        if self.ask_size == self.ask_size:\n            self.history[\"ask_size\"].append(self.ask_size)"), "S1.history-ask_size")
E("C14", "E1-appends-reordered", (EX, "        self.history[\"time\"].append(self.time)\n        self.history[\"bid_price\"].append(self.bid_price)\n", "        self.history[\"bid_price\"].append(self.bid_price)\n        self.history[\"time\"].append(self.time)\n"))
E("C14", "E2-mid-rewritten", (EX, "        return (self.ask_price + self.bid_price) / 2", "        return 0.5 * self.bid_price + 0.5 * self.ask_price"))
E("C14", "E3-acq-reordered", (EX, "        if quantity < 0:\n            return self.bid_price\n        elif quantity > 0:\n            return self.ask_price\n        elif quantity == 0:\n            return self.mid_price", "        if quantity == 0:\n            return self.mid_price\n        elif 0 < quantity:\n            return self.ask_price\n        elif quantity < 0:\n            return self.bid_price"))
E("C14", "E4-update-from-locals", (EX, "        self.bid_price = event.bid_price\n        self.ask_price = event.ask_price\n", "        bid, ask = event.bid_price, event.ask_price\n        self.ask_price = ask\n        self.bid_price = bid\n"))
E("C14", "E5-book-local-renamed", (EX, "        book = self[event.contract]\n        if book.is_alive:\n            book.update(event)", "        lob = self[event.contract]\n        if not lob.is_alive:\n            pass\n        else:\n            lob.update(event)"))
