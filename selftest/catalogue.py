"""Self-validation catalogue: text splices of the *current* tree.

expect='fire'   : the change breaks a decided clause; the property's check must
                  report it (optionally by the named rule).
expect='silent' : behaviour-preserving rewrite; the check must stay silent.
A variant whose anchor text is not found exactly once is skipped and counted.
"""

BR = "tradingenv/broker/broker.py"
TR = "tradingenv/broker/trade.py"
FE = "tradingenv/broker/fees.py"
RB = "tradingenv/broker/rebalancing.py"
AL = "tradingenv/broker/allocation.py"
TK = "tradingenv/broker/track_record.py"
EX = "tradingenv/exchange.py"
CO = "tradingenv/contracts.py"
EV = "tradingenv/events.py"
TM = "tradingenv/transmitter.py"
EN = "tradingenv/env.py"
SP = "tradingenv/spaces.py"
RW = "tradingenv/rewards.py"
ST = "tradingenv/state.py"
FT = "tradingenv/features.py"
LB = "tradingenv/library.py"
ME = "tradingenv/metrics.py"

CATALOGUE = []


def M(prop, id, edits, rule=None):
    if isinstance(edits, tuple):
        edits = [edits]
    CATALOGUE.append({"prop": prop, "id": f"{prop}/{id}", "edits": edits, "expect": "fire", "rule": rule})


def E(prop, id, edits):
    if isinstance(edits, tuple):
        edits = [edits]
    CATALOGUE.append({"prop": prop, "id": f"{prop}/{id}", "edits": edits, "expect": "silent", "rule": None})


# ------------------------------------------------------------------ C09
M("C09", "M1-strict", (BR, "if raise_if_broke and nlv <= 0:", "if raise_if_broke and nlv < 0:"), "S1.nonpositive-raises")
M("C09", "M2-no-done-guard", (EN, "        if self._done:\n            raise EndOfEpisodeError(\n                \"The current episode has ended. To start a new episode use \"\n                \"TradingEnv.reset().\"\n            )\n        self._queue_actions.appendleft(action)", "        self._queue_actions.appendleft(action)"), "S4.done-guard")
M("C09", "M3-wrong-except", (EN, "        except EndOfEpisodeError:\n            info = dict()", "        except ValueError:\n            info = dict()"), "S3")
M("C09", "M4-default-false", (BR, "def net_liquidation_value(self, raise_if_broke: bool = True)", "def net_liquidation_value(self, raise_if_broke: bool = False)"), "S1.default-raises")
M("C09", "M5-new-unguarded-valuation", (EN, "        self._process_nonlatent_events()\n        reward =", "        self._process_nonlatent_events()\n        self.broker.holdings_weights()\n        reward ="), "S5.no-escape")
M("C09", "M6-guard-late", (EN, "        if self._done:\n            raise EndOfEpisodeError(\n                \"The current episode has ended. To start a new episode use \"\n                \"TradingEnv.reset().\"\n            )\n        self._queue_actions.appendleft(action)\n        action = self._queue_actions.pop()",
                           "        self._queue_actions.appendleft(action)\n        action = self._queue_actions.pop()\n        if self._done:\n            raise EndOfEpisodeError(\n                \"The current episode has ended. To start a new episode use \"\n                \"TradingEnv.reset().\"\n            )"), "S4.guard-first")
M("C09", "M7-handler-forgets-done", (EN, "            info = dict()\n            self._done = True", "            info = dict()"), "S3.handler-ends-episode")
M("C09", "M8-trades-before-valuation", (BR, "        rebalancing.context_pre = self.context()\n        rebalancing.trades = rebalancing.make_trades(self)\n        for trade in rebalancing.trades:\n            self.transact(trade)",
                                         "        rebalancing.trades = rebalancing.make_trades(self)\n        for trade in rebalancing.trades:\n            self.transact(trade)\n        rebalancing.context_pre = self.context()"), None)
M("C09", "M9-step-clears-done", (EN, "        self._process_nonlatent_events()\n        reward =", "        self._process_nonlatent_events()\n        self._done = False\n        reward ="), "S4.done-values")
M("C09", "M10-extra-condition", (BR, "if raise_if_broke and nlv <= 0:", "if raise_if_broke and nlv <= 0 and len(self.track_record) > 0:"), "S1")
E("C09", "E1-not-gt", (BR, "if raise_if_broke and nlv <= 0:", "if raise_if_broke and not (nlv > 0):"))
E("C09", "E2-handler-reordered", (EN, "            info = dict()\n            self._done = True", "            self._done = True\n            info = dict()"))
E("C09", "E3-local-alias", (BR, "        nlv = sum(holdings_values.values())\n        if raise_if_broke and nlv <= 0:", "        nlv = sum(holdings_values.values())\n        broke = nlv <= 0\n        if raise_if_broke and broke:"))

# ------------------------------------------------------------------ C14
M("C14", "M1-no-alive-guard", (EX, "        if book.is_alive:\n            book.update(event)", "        book.update(event)"), "S3.alive-guard")
M("C14", "M2-dead-before-reinit", (EX, "        self.__init__()\n        self.history = history\n        self.time = event.time\n        self.is_alive = False", "        self.is_alive = False\n        self.__init__()\n        self.history = history\n        self.time = event.time"), "S3")
M("C14", "M3-drop-history-append", (EX, "        self.history[\"bid_size\"].append(self.bid_size)\n", ""), "S1.history-bid_size")
M("C14", "M4-swap-bid-ask", (EX, "        self.bid_price = event.bid_price\n", "        self.bid_price = event.ask_price\n"), "S1.store-bid_price")
M("C14", "M5-update-all-books", (EX, "        if book.is_alive:\n            book.update(event)", "        for book in self._books.values():\n            if book.is_alive:\n                book.update(event)"), "S2")
M("C14", "M6-acq-swapped", (EX, "        if quantity < 0:\n            return self.bid_price\n        elif quantity > 0:\n            return self.ask_price", "        if quantity < 0:\n            return self.ask_price\n        elif quantity > 0:\n            return self.bid_price"), "S4.acq")
M("C14", "M7-zero-at-ask", (EX, "        elif quantity == 0:\n            return self.mid_price", "        elif quantity == 0:\n            return self.ask_price"), "S4.acq-zero")
M("C14", "M8-mid-history-stale", (EX, "        self.bid_price = event.bid_price\n        self.ask_price = event.ask_price\n", "        self.history[\"mid_price\"].append(self.mid_price)\n        self.bid_price = event.bid_price\n        self.ask_price = event.ask_price\n"), "S1.history")
M("C14", "M9-liq-same-sign", (EX, "        return self.acq_price(-quantity)", "        return self.acq_price(quantity)"), "S4.liq-is-opposite")
M("C14", "M10-terminate-keeps-quotes", (EX, "        history = self.history\n        self.__init__()\n        self.history = history", "        history = self.history\n        bid = self.bid_price\n        self.__init__()\n        self.bid_price = bid\n        self.history = history"), "S3.no-price-after-death")
M("C14", "M11-terminate-loses-history", (EX, "        self.__init__()\n        self.history = history\n", "        self.__init__()\n"), "S3.history-kept")
M("C14", "M12-getitem-raw-key", (EX, "        if isinstance(key, AbstractContract):\n            key = key.static_hashing()  # TODO: Test\n", ""), "S5.getitem-normalises-key")
M("C14", "M13-shared-book", (EX, "        self._books = defaultdict(LimitOrderBook)", "        _shared = LimitOrderBook()\n        self._books = defaultdict(lambda: _shared)"), "S2.fresh-book-per-key")
M("C14", "M14-nan-to-mid", (EX, "        else:\n            raise ValueError(\"Unexpected sign: {}\".format(quantity))", "        else:\n            return self.mid_price"), "S4.acq-nan")
M("C14", "M15-hash-by-short-symbol", (CO, "        different contracts have to have different hash number.\"\"\"\n        return hash(self.symbol)", "        different contracts have to have different hash number.\"\"\"\n        return hash(self.symbol_short)"), "S5.hash-by-symbol")
M("C14", "M16-mid-weighted", (EX, "        return (self.ask_price + self.bid_price) / 2", "        return (self.ask_price + self.bid_price * 2) / 3"), "S4.mid")
M("C14", "M17-feature-updates-book", (LB, "        w = [self.exchange[contract].mid_price for contract in self.contracts]\n        return np.array([w])", "        w = [self.exchange[contract].mid_price for contract in self.contracts]\n        for contract in self.contracts:\n            self.exchange[contract].update(self.exchange[contract])\n        return np.array([w])"), "S3.update-callers")
M("C14", "M18-update-skips-size-on-branch", (EX, "        self.history[\"ask_size\"].append(self.ask_size)", "        if self.ask_size == self.ask_size:\n            self.history[\"ask_size\"].append(self.ask_size)"), "S1.history-ask_size")
E("C14", "E1-appends-reordered", (EX, "        self.history[\"time\"].append(self.time)\n        self.history[\"bid_price\"].append(self.bid_price)\n", "        self.history[\"bid_price\"].append(self.bid_price)\n        self.history[\"time\"].append(self.time)\n"))
E("C14", "E2-mid-rewritten", (EX, "        return (self.ask_price + self.bid_price) / 2", "        return 0.5 * self.bid_price + 0.5 * self.ask_price"))
E("C14", "E3-acq-reordered", (EX, "        if quantity < 0:\n            return self.bid_price\n        elif quantity > 0:\n            return self.ask_price\n        elif quantity == 0:\n            return self.mid_price", "        if quantity == 0:\n            return self.mid_price\n        elif 0 < quantity:\n            return self.ask_price\n        elif quantity < 0:\n            return self.bid_price"))
E("C14", "E4-update-from-locals", (EX, "        self.bid_price = event.bid_price\n        self.ask_price = event.ask_price\n", "        bid, ask = event.bid_price, event.ask_price\n        self.ask_price = ask\n        self.bid_price = bid\n"))
E("C14", "E5-book-local-renamed", (EX, "        book = self[event.contract]\n        if book.is_alive:\n            book.update(event)", "        lob = self[event.contract]\n        if not lob.is_alive:\n            pass\n        else:\n            lob.update(event)"))

# ------------------------------------------------------------------ C17
M("C17", "M1-no-guard", (SP, "        if action not in self:\n            raise ValueError(\n                \"This action does not belong to the action observation_space {}: {}\"\n                \"\".format(self.__class__.__name__, action)\n            )\n", ""), "S1.membership-raise")
M("C17", "M2-wide-except", (EN, "        except EndOfEpisodeError:\n            info = dict()", "        except (EndOfEpisodeError, ValueError):\n            info = dict()"), "S2.rebalance-errors-not-swallowed")
M("C17", "M3-contains-not-any", (SP, "            and np.all(x >= self.low)\n", "            and not np.any(x < self.low)\n"), "S3.box-contains-low")
M("C17", "M4-no-shape-test", (SP, "            x.shape == self.shape\n            and np.all(x >= self.low)", "            np.all(x >= self.low)"), "S3.box-contains-shape")
M("C17", "M5-allocation-scaled", (SP, "        method simply returns the input (action).\"\"\"\n        return action", "        method simply returns the input (action).\"\"\"\n        return action * 0.5"), "S4.box-allocation-is-action")
E("C17", "E4-request-in-try", (EN, "        rebalancing = self.action_space.make_rebalancing_request(action, self.now(), self.broker)\n        try:\n            self.broker.rebalance(rebalancing)", "        try:\n            rebalancing = self.action_space.make_rebalancing_request(action, self.now(), self.broker)\n            self.broker.rebalance(rebalancing)"))
M("C17", "M7-allocation-before-test", (SP, "        if action not in self:\n            raise ValueError(", "        allocation = self._make_allocation(action, broker)\n        if action not in self:\n            raise ValueError("), "S1")
M("C17", "M8-discrete-off-by-one", (SP, "        return self._allocations[action]", "        return self._allocations[action - 1]"), "S4.discrete-allocation-indexed")
M("C17", "M9-wrong-measure", (SP, "            measure='weight' if self._as_weights else 'nr-contracts',", "            measure='nr-contracts' if self._as_weights else 'weight',"), "S4.request-measure")
M("C17", "M10-cash-not-dropped", (AL, "            if not isinstance(contract, Cash)\n", ""), "S5.drops-cash")
M("C17", "M11-base-contains", (SP, "    def null_action(self):\n        \"\"\"Used to fill the deque", "    def contains(self, x):\n        return True\n\n    def null_action(self):\n        \"\"\"Used to fill the deque"), "S3.base-does-not-shadow")
M("C17", "M12-high-strict-dropped", (SP, "            and np.all(x <= self.high)\n", ""), "S3.box-contains-high")
M("C17", "M13-keys-values-swapped-n", (SP, "        Discrete.__init__(self, n=len(allocations))", "        Discrete.__init__(self, n=len(allocations) + 1)"), "S4.discrete-size")
M("C17", "M14-validate-submitted-not-due", (EN, "        self._queue_actions.appendleft(action)\n        action = self._queue_actions.pop()\n        self._process_latent_events()\n        rebalancing = self.action_space.make_rebalancing_request(action, self.now(), self.broker)",
                                           "        self._queue_actions.appendleft(action)\n        due = self._queue_actions.pop()\n        self._process_latent_events()\n        rebalancing = self.action_space.make_rebalancing_request(action, self.now(), self.broker)\n        action = due"), "S2.validates-due-action")
M("C17", "M15-rebalancing-margin-lost", (RB, "        self.margin = margin\n", "        self.margin = 0.0\n"), "S4.rebalancing-margin")
E("C17", "E1-positive-form", (SP, "        if action not in self:\n            raise ValueError(\n                \"This action does not belong to the action observation_space {}: {}\"\n                \"\".format(self.__class__.__name__, action)\n            )\n        return Rebalancing(",
                              "        if not (action in self):\n            raise ValueError(\n                \"This action does not belong to the action observation_space {}: {}\"\n                \"\".format(self.__class__.__name__, action)\n            )\n        return Rebalancing("))
E("C17", "E2-bounds-swapped-sides", (SP, "            and np.all(x >= self.low)\n            and np.all(x <= self.high)", "            and np.all(self.high >= x)\n            and np.all(self.low <= x)"))
E("C17", "E3-request-local", (SP, "        return Rebalancing(\n            time=time,\n            contracts=self.contracts,\n            allocation=self._make_allocation(action, broker),", "        allocation = self._make_allocation(action, broker)\n        return Rebalancing(\n            time=time,\n            contracts=self.contracts,\n            allocation=allocation,"))

# ------------------------------------------------------------------ C12
M("C12", "M1-and-to-or", (RB, "            if abs(weights[contract]) < self.margin and contract in self.allocation:", "            if abs(weights[contract]) < self.margin or contract in self.allocation:"), "S1")
M("C12", "M2-membership-imbalance", (RB, "            if abs(weights[contract]) < self.margin and contract in self.allocation:", "            if abs(weights[contract]) < self.margin and contract in imbalance:"), "S2.exempts-untargeted")
M("C12", "M3-int-to-round", (RB, "                quantity = int(quantity)", "                quantity = round(quantity)"), "S3.truncation-family")
M("C12", "M4-threshold-lte", (RB, "            if abs(weights[contract]) < self.margin and contract in self.allocation:", "            if abs(weights[contract]) <= self.margin and contract in self.allocation:"), "S1.threshold-strict")
M("C12", "M5-zero-filter-dropped", (AL, "            if not isinstance(contract, Cash)\n            if value != 0\n", "            if not isinstance(contract, Cash)\n"), "S5.drops-zero")
M("C12", "M6-F8-regression", (RB, "                if quantity == 0:\n                    # Imbalance is smaller than one lot: nothing to trade.\n                    continue\n", ""), "S4.nonzero-into-trade")
M("C12", "M7-no-membership", (RB, "            if abs(weights[contract]) < self.margin and contract in self.allocation:", "            if abs(weights[contract]) < self.margin:"), "S1")
M("C12", "M9-floor-div", [(RB, "from typing import Sequence, List\n", "from typing import Sequence, List\nimport math\n"), (RB, "                quantity = int(quantity)", "                quantity = math.floor(quantity)")], "S3.truncation-family")
M("C12", "M10-trunc-always", (RB, "            if not self.fractional:\n                # Fractional shares are not supported. Round to smallest digit.\n                quantity = int(quantity)\n                if quantity == 0:\n                    # Imbalance is smaller than one lot: nothing to trade.\n                    continue\n",
                              "            quantity = int(quantity)\n            if quantity == 0:\n                continue\n"), "S3.only-when-not-fractional")
M("C12", "M11-no-abs", (RB, "            if abs(weights[contract]) < self.margin and contract in self.allocation:", "            if weights[contract] < self.margin and contract in self.allocation:"), "S1.threshold-strict")
M("C12", "M12-target-weight-tested", (RB, "            if abs(weights[contract]) < self.margin and contract in self.allocation:", "            if abs(self.allocation.get(contract, 0)) < self.margin and contract in self.allocation:"), "S1")
M("C12", "M13-trade-no-zero-guard", (TR, "        if quantity == 0:\n            raise ValueError(\"Quantity for contract {} is zero.\".format(contract))\n", ""), "S5.trade-rejects-zero-quantity")
M("C12", "M14-sub-returns-dict", (AL, "        return cls(mapping)", "        return mapping"), "S4.sub-refilters")
M("C12", "M15-extra-skip-small", (RB, "            trade = Trade(\n", "            if abs(quantity) < 1e-3:\n                continue\n            trade = Trade(\n"), "S1.no-other-skip")
M("C12", "M16-zero-skip-after-threshold-only-fractional", (RB, "                if quantity == 0:\n                    # Imbalance is smaller than one lot: nothing to trade.\n                    continue\n", "                if quantity == 0 and contract in self.allocation:\n                    continue\n"), "S4")
E("C12", "E1-demorgan", (RB, "            if abs(weights[contract]) < self.margin and contract in self.allocation:\n                # Imbalance weight is smaller than margin. Skip to save costs.\n                continue\n            trade = Trade(\n                time=self.time,\n                contract=contract,\n                quantity=quantity,\n                bid_price=broker.exchange[contract].bid_price,\n                ask_price=broker.exchange[contract].ask_price,\n                broker_fees=broker.fees,\n            )\n            trades.append(trade)",
                         "            if not (abs(weights[contract]) >= self.margin or contract not in self.allocation):\n                continue\n            trade = Trade(\n                time=self.time,\n                contract=contract,\n                quantity=quantity,\n                bid_price=broker.exchange[contract].bid_price,\n                ask_price=broker.exchange[contract].ask_price,\n                broker_fees=broker.fees,\n            )\n            trades.append(trade)"))
E("C12", "E2-math-trunc", [(RB, "from typing import Sequence, List\n", "from typing import Sequence, List\nimport math\n"), (RB, "                quantity = int(quantity)", "                quantity = math.trunc(quantity)")])
E("C12", "E3-margin-first", (RB, "            if abs(weights[contract]) < self.margin and contract in self.allocation:", "            if contract in self.allocation and self.margin > abs(weights[contract]):"))

# ------------------------------------------------------------------ C13
M("C13", "M1-nan-guard-after-arith", (BR, "                if np.isnan(liq_price):\n                    raise ValueError(\n                        \"Missing liquidation transaction_price for {}.\".format(contract)\n                    )\n                if kind == \"notional\":\n                    value = quantity * liq_price * contract.multiplier\n",
      "                if kind == \"notional\":\n                    value = quantity * liq_price * contract.multiplier\n                    if np.isnan(liq_price) and kind != \"notional\":\n                        raise ValueError(\n                            \"Missing liquidation transaction_price for {}.\".format(contract)\n                        )\n"), "S1")
M("C13", "M2-zero-branch-reads-book", (BR, "            if quantity == 0:\n                value = 0.0\n            else:\n                order_book = self.exchange[contract]\n", "            order_book = self.exchange[contract]\n            if quantity == 0:\n                value = 0.0\n            else:\n"), "S2.flat-needs-no-quote")
M("C13", "M3-generator", (RB, "            trades.append(trade)\n        return trades", "            yield trade"), "S4")
M("C13", "M4-transact-in-make-trades", (RB, "            trades.append(trade)\n        return trades", "            trades.append(trade)\n            broker.transact(trade)\n        return trades"), "S5.transact-callers")
M("C13", "M5-checkpoint-before-loop", (BR, "        for trade in rebalancing.trades:\n            self.transact(trade)\n        rebalancing.context_post = self.context()\n        self.track_record._checkpoint(rebalancing)", "        self.track_record._checkpoint(rebalancing)\n        for trade in rebalancing.trades:\n            self.transact(trade)\n        rebalancing.context_post = self.context()"), "S5.checkpoint-last")
M("C13", "M6-nan-raise-only-liquidation", (BR, "                if np.isnan(liq_price):\n                    raise ValueError(", "                if np.isnan(liq_price) and kind == \"liquidation\":\n                    raise ValueError("), "S1.nan-raise-unconditional")
M("C13", "M7-nan-valued-zero", (BR, "                if np.isnan(liq_price):\n                    raise ValueError(\n                        \"Missing liquidation transaction_price for {}.\".format(contract)\n                    )\n", "                if np.isnan(liq_price):\n                    liq_price = 0.0\n"), "S1.nan-raises")
M("C13", "M8-trade-nan-ask-unchecked", (TR, "        if np.isnan(ask_price):\n            raise ValueError(\"Missing ask price for contract {}.\".format(contract))\n", ""), "S3.trade-rejects-nan-ask")
M("C13", "M9-mid-price-valuation", (BR, "                liq_price = (\n                    order_book.bid_price if quantity >= 0 else order_book.ask_price\n                )", "                liq_price = order_book.mid_price"), "S1.liquidation-side")
E("C13", "E4-iterate-returned-list", (BR, "        rebalancing.trades = rebalancing.make_trades(self)\n        for trade in rebalancing.trades:\n            self.transact(trade)", "        rebalancing.trades = list()\n        for trade in rebalancing.make_trades(self):\n            self.transact(trade)\n            rebalancing.trades.append(trade)"))
M("C13", "M11-acq-nan-mid", (EX, "        else:\n            raise ValueError(\"Unexpected sign: {}\".format(quantity))", "        else:\n            return self.mid_price"), "S3.acq-price-nan-raises")
M("C13", "M12-trade-uses-mid", (RB, "                bid_price=broker.exchange[contract].bid_price,", "                bid_price=broker.exchange[contract].mid_price,"), "S3.trade-gets-bid_price")
M("C13", "M13-guards-after-store", (TR, "        if np.isnan(quantity):\n            raise ValueError(\"Missing quantity for contract {}.\".format(contract))\n        if quantity == 0:", "        self.time = time\n        if np.isnan(quantity):\n            raise ValueError(\"Missing quantity for contract {}.\".format(contract))\n        if quantity == 0:"), "S3")
M("C13", "M14-position-write-in-context", (BR, "        self.marking_to_market()\n        holdings_values = self.holdings_values(kind=\"liquidation\")", "        self.marking_to_market()\n        for c in list(self._holdings_quantity):\n            if abs(self._holdings_quantity[c]) < self._epsilon:\n                self._holdings_quantity[c] = 0.\n        holdings_values = self.holdings_values(kind=\"liquidation\")"), "S5.no-position-write-before-trades")
M("C13", "M15-dead-book-updated", (EX, "        if book.is_alive:\n            book.update(event)", "        book.update(event)"), "S6.dead-books-silent")
E("C13", "E1-guards-reordered", (TR, "        if np.isnan(bid_price):\n            raise ValueError(\"Missing bid price for contract {}.\".format(contract))\n        if np.isnan(ask_price):\n            raise ValueError(\"Missing ask price for contract {}.\".format(contract))\n", "        if np.isnan(ask_price):\n            raise ValueError(\"Missing ask price for contract {}.\".format(contract))\n        if np.isnan(bid_price):\n            raise ValueError(\"Missing bid price for contract {}.\".format(contract))\n"))
E("C13", "E2-quantity-ne-zero-form", (BR, "            if quantity == 0:\n                value = 0.0\n            else:\n                order_book = self.exchange[contract]\n                liq_price = (\n                    order_book.bid_price if quantity >= 0 else order_book.ask_price\n                )\n                if np.isnan(liq_price):\n                    raise ValueError(\n                        \"Missing liquidation transaction_price for {}.\".format(contract)\n                    )\n                if kind == \"notional\":\n                    value = quantity * liq_price * contract.multiplier\n                elif kind == \"liquidation\":\n                    value = contract.cash_requirement * quantity * liq_price * contract.multiplier\n                    value += self._holdings_margins[contract]\n                else:\n                    raise ValueError(\"Unsupported 'kind'.\")\n",
      "            value = 0.0\n            if quantity != 0:\n                order_book = self.exchange[contract]\n                liq_price = (\n                    order_book.bid_price if quantity >= 0 else order_book.ask_price\n                )\n                if np.isnan(liq_price):\n                    raise ValueError(\n                        \"Missing liquidation transaction_price for {}.\".format(contract)\n                    )\n                if kind == \"notional\":\n                    value = quantity * liq_price * contract.multiplier\n                elif kind == \"liquidation\":\n                    value = contract.cash_requirement * quantity * liq_price * contract.multiplier\n                    value += self._holdings_margins[contract]\n                else:\n                    raise ValueError(\"Unsupported 'kind'.\")\n"))
E("C13", "E3-trades-local", (BR, "        rebalancing.trades = rebalancing.make_trades(self)\n        for trade in rebalancing.trades:\n            self.transact(trade)", "        trades = rebalancing.make_trades(self)\n        rebalancing.trades = trades\n        for trade in trades:\n            self.transact(trade)"))

# ------------------------------------------------------------------ C01
M("C01", "M1-notional-no-multiplier", (TR, "        self.notional = self.acq_price * quantity * contract.multiplier", "        self.notional = self.acq_price * quantity"), "S1.trade-notional")
M("C01", "M2-fee-no-abs", (FE, "        return self.fixed + abs(trade.notional) * self.proportional", "        return self.fixed + trade.notional * self.proportional"), "S6.commission-formula")
M("C01", "M3-no-premark", (BR, "        self.marking_to_market(trade.contract)\n\n        # Calculate target _margin requirements.", "        # Calculate target _margin requirements."), "S4")
M("C01", "M4-cash-gets-wrong-leg", (BR, "            self._holdings_quantity[self.base_currency] += excess_margin", "            self._holdings_quantity[self.base_currency] += current_margin"), "S2.variation-margin-only-flow")
M("C01", "M5-valuation-side-swapped", (BR, "                    order_book.bid_price if quantity >= 0 else order_book.ask_price", "                    order_book.ask_price if quantity >= 0 else order_book.bid_price"), "S3.valuation-side")
M("C01", "M6-return-live-margins", (BR, "        return dict(self._holdings_margins)", "        return self._holdings_margins"), "S7.ledger-does-not-escape")
M("C01", "M7-reward-writes-ledger", (RW, "        nlv_last_rebalancing = env.broker.track_record[-1].context_pre.nlv\n        nlv_now = env.broker.net_liquidation_value()\n        return float(nlv_now - nlv_last_rebalancing)", "        nlv_last_rebalancing = env.broker.track_record[-1].context_pre.nlv\n        nlv_now = env.broker.net_liquidation_value()\n        env.broker._holdings_quantity[env.broker.base_currency] += 0.0\n        return float(nlv_now - nlv_last_rebalancing)"), "S7.ledger-writers")
M("C01", "M8-trade-mid-price", (RB, "                bid_price=broker.exchange[contract].bid_price,", "                bid_price=broker.exchange[contract].mid_price,"), "S8.trade-gets-bid_price")
M("C01", "M9-F1-regression", (BR, "                    value = contract.cash_requirement * quantity * liq_price * contract.multiplier", "                    value = contract.cash_requirement * quantity * liq_price"), "S6.value-liquidation")
M("C01", "M10-valuation-mid", (BR, "                liq_price = (\n                    order_book.bid_price if quantity >= 0 else order_book.ask_price\n                )", "                liq_price = order_book.mid_price"), "S3.valuation-side")
M("C01", "M11-cost-of-cash-twice-commission", (BR, "        self._holdings_quantity[self.base_currency] -= trade.cost_of_commissions\n", "        self._holdings_quantity[self.base_currency] -= trade.cost_of_commissions * 2\n"), "S2.cash-margin-zero-sum")
M("C01", "M12-margin-leg-dropped", (BR, "        self._holdings_quantity[self.base_currency] -= margin_diff\n", ""), "S2.cash-margin-zero-sum")
M("C01", "M13-position-half", (BR, "        self._holdings_quantity[trade.contract] += trade.quantity\n", "        self._holdings_quantity[trade.contract] += trade.quantity / 2\n"), "S2.position-moves-by-quantity")
M("C01", "M14-trade-side-swapped", (TR, "        self.acq_price = ask_price if quantity > 0 else bid_price", "        self.acq_price = bid_price if quantity > 0 else ask_price"), "S3.trade-side")
M("C01", "M15-profit-no-multiplier", (BR, "            profit = quantity * contract.multiplier * price_change", "            profit = quantity * price_change"), "S2.variation-margin-only-flow")
M("C01", "M16-valuation-no-mark", (BR, "        self.marking_to_market()\n        holdings_values = self.holdings_values(kind=\"liquidation\")", "        holdings_values = self.holdings_values(kind=\"liquidation\")"), "S5.valuation-marks-first")
M("C01", "M17-spread-cost-mid", (TR, "            abs(quantity) * contract.multiplier * (ask_price - bid_price)", "            abs(quantity) * contract.multiplier * (ask_price - bid_price) / 2"), "S1.trade-cost_of_spread")
M("C01", "M18-cash-cost-no-requirement", (TR, "        self.cost_of_cash = self.notional * contract.cash_requirement", "        self.cost_of_cash = self.notional"), "S1.trade-cost_of_cash")
M("C01", "M19-liq-margin-dropped", (BR, "                    value += self._holdings_margins[contract]\n", ""), "S6.value-liquidation")
M("C01", "M20-reference-not-reset-after-mark", (BR, "            self._last_marking_to_market_price[contract] = liq_price\n", ""), "S2.marking-equations")
M("C01", "M21-feature-transacts", (LB, "        holdings = self.broker.holdings_weights()\n", "        holdings = self.broker.holdings_weights()\n        self.broker.marking_to_market()\n        self.broker._last_accrual = None\n"), "S7.ledger-writers")
M("C01", "M22-fees-swapped", (FE, "        self.proportional = proportional\n        self.fixed = fixed", "        self.proportional = fixed\n        self.fixed = proportional"), "S6.fees")
E("C01", "E1-split-debit", (BR, "        self._holdings_quantity[self.base_currency] -= margin_diff\n", "        half = margin_diff / 2\n        self._holdings_quantity[self.base_currency] -= half\n        self._holdings_quantity[self.base_currency] -= margin_diff - half\n"))
E("C01", "E2-debits-reordered", (BR, "        self._holdings_quantity[self.base_currency] -= trade.cost_of_commissions\n\n        # Acquisition.\n        self._holdings_quantity[self.base_currency] -= trade.cost_of_cash\n", "        self._holdings_quantity[self.base_currency] -= trade.cost_of_cash\n        self._holdings_quantity[self.base_currency] -= trade.cost_of_commissions\n"))
E("C01", "E3-merged-debit", (BR, "        self._holdings_quantity[self.base_currency] -= trade.cost_of_cash\n        self._holdings_quantity[self.base_currency] -= margin_diff\n", "        self._holdings_quantity[self.base_currency] -= trade.cost_of_cash + margin_diff\n"))
E("C01", "E4-rename-locals", (BR, "            price_change = liq_price - last_price\n            profit = quantity * contract.multiplier * price_change", "            delta = liq_price - last_price\n            profit = contract.multiplier * delta * quantity"))
E("C01", "E5-notional-reordered", (TR, "        self.notional = self.acq_price * quantity * contract.multiplier", "        self.notional = contract.multiplier * (quantity * self.acq_price)"))

# ------------------------------------------------------------------ C05
M("C05", "M1-no-abs", (BR, "                liq_price * abs(quantity) * contract.multiplier * contract.margin_requirement", "                liq_price * quantity * contract.multiplier * contract.margin_requirement"), "S1.margin-after-mark")
M("C05", "M2-sweep-leg-dropped", (BR, "            self._holdings_margins[contract] -= excess_margin\n", ""), None)
M("C05", "M3-no-margin-guard", (BR, "            if contract.margin_requirement == 0:\n                continue\n", ""), "S4.no-margin-no-writes")
M("C05", "M4-no-negative-raise", (BR, "            if self._holdings_margins[contract] < 0:\n                raise ValueError(\n                    \"Unexpected situation during sanity check. \"\n                    \"Margin for {} is negative: {}\"\n                    \"\".format(contract, self._holdings_margins[contract])\n                )\n", ""), "S2")
M("C05", "M5-weights-over-deposit", (BR, "            contract: value / nlv\n", "            contract: value / self._initial_deposit\n"), "S6.weight-is-notional-over-nlv")
M("C05", "M6-margin-on-trade-no-requirement", (BR, "            * trade.contract.multiplier\n            * trade.contract.margin_requirement\n", "            * trade.contract.multiplier\n"), "S1.margin-after-trade")
M("C05", "M7-margin-mid", (BR, "            liq_price = self.exchange[contract].liq_price(quantity)", "            liq_price = self.exchange[contract].mid_price"), None)
M("C05", "M8-target-uses-last-price", (BR, "                liq_price * abs(quantity) * contract.multiplier * contract.margin_requirement", "                last_price * abs(quantity) * contract.multiplier * contract.margin_requirement"), "S1.margin-after-mark")
M("C05", "M9-weights-liquidation-kind", (BR, "        holdings_notional_values = self.holdings_values()\n", "        holdings_notional_values = self.holdings_values(kind=\"liquidation\")\n"), "S6.weight-is-notional-over-nlv")
M("C05", "M10-marking-target-qty-pretrade", (BR, "        target_quantity = abs(self._holdings_quantity[trade.contract] + trade.quantity)", "        target_quantity = abs(self._holdings_quantity[trade.contract])"), "S1.margin-after-trade")
E("C05", "E1-guard-not", (BR, "            if contract.margin_requirement == 0:\n                continue\n", "            if not contract.margin_requirement:\n                continue\n"))
E("C05", "E2-target-reordered", (BR, "                liq_price * abs(quantity) * contract.multiplier * contract.margin_requirement", "                contract.margin_requirement * contract.multiplier * abs(quantity) * liq_price"))

# ------------------------------------------------------------------ C06
M("C06", "M1-cash-write-unconditional", (BR, "        if accrue:\n            self._holdings_quantity[self.base_currency] += accrued_interest\n            self._last_accrual = now", "        self._holdings_quantity[self.base_currency] += accrued_interest\n        if accrue:\n            self._last_accrual = now"), "S5")
M("C06", "M2-clock-outside-accrue", (BR, "        if accrue:\n            self._holdings_quantity[self.base_currency] += accrued_interest\n            self._last_accrual = now", "        if accrue:\n            self._holdings_quantity[self.base_currency] += accrued_interest\n        self._last_accrual = now"), "S5")
M("C06", "M3-lte-raises", (BR, "        if now < self._last_accrual:", "        if now <= self._last_accrual:"), "S6.earlier-time-rejected")
M("C06", "M4-simple-interest", (BR, "        rate_period = (1 + cagr) ** years - 1", "        rate_period = (1 + cagr) * years - 1"), "S3")
M("C06", "M5-margin-earns", (BR, "        amount = self._holdings_quantity[self.base_currency]\n", "        amount = self._holdings_quantity[self.base_currency]\n        amount += sum(self._holdings_margins.values())\n"), None)
M("C06", "M6-markup-sign", (BR, "        cagr = order_book.mid_price - self.fees.markup * np.sign(amount)", "        cagr = order_book.mid_price + self.fees.markup * np.sign(amount)"), "S1.rate-minus-markup-times-sign")
M("C06", "M7-360-day-year", (BR, "SECONDS_IN_YEAR = 365 * 24 * 60 * 60", "SECONDS_IN_YEAR = 360 * 24 * 60 * 60"), "S3")
M("C06", "M8-no-floor", (BR, "        if amount > 0. and accrued_interest < 0.:\n            accrued_interest = 0.\n", ""), "S2.floor-present")
M("C06", "M9-floor-any-sign", (BR, "        if amount > 0. and accrued_interest < 0.:", "        if accrued_interest < 0.:"), "S2.floor-condition")
M("C06", "M10-rebalance-queries-only", (BR, "self.accrued_interest(rebalancing.time, True)", "self.accrued_interest(rebalancing.time)"), "S7.accrue-true")
M("C06", "M11-accrue-after-snapshot", (BR, "        rebalancing.profit_on_idle_cash = self.accrued_interest(rebalancing.time, True)\n        rebalancing.context_pre = self.context()\n", "        rebalancing.context_pre = self.context()\n        rebalancing.profit_on_idle_cash = self.accrued_interest(rebalancing.time, True)\n"), "S7.accrue-before-snapshot")
M("C06", "M12-seed-after-events", (EN, "        self.exchange.process_EventNBBO(EventNBBO(self.now(), self._broker_fees.interest_rate, 0.0, 0.0))\n", ""), "S7.rate-seeded-first")
M("C06", "M13-markup-abs-only", (BR, "        cagr = order_book.mid_price - self.fees.markup * np.sign(amount)", "        cagr = order_book.mid_price - self.fees.markup"), "S1.rate-minus-markup-times-sign")
M("C06", "M14-bid-instead-of-mid", (BR, "        cagr = order_book.mid_price - self.fees.markup * np.sign(amount)", "        cagr = order_book.bid_price - self.fees.markup * np.sign(amount)"), "S1.rate-minus-markup-times-sign")
M("C06", "M15-credit-differs-from-return", (BR, "            self._holdings_quantity[self.base_currency] += accrued_interest\n            self._last_accrual = now", "            self._holdings_quantity[self.base_currency] += round(accrued_interest, 2)\n            self._last_accrual = now"), "S5.credited-equals-returned")
M("C06", "M16-accrual-default-true", (BR, "def accrued_interest(self, now: datetime, accrue: bool = False)", "def accrued_interest(self, now: datetime, accrue: bool = True)"), "S5.query-is-default")
M("C06", "M17-rate-bound-loosened", (CO, "        if mid_price >= 0.25:", "        if mid_price >= 2.5:"), "S1.rate-bound")
M("C06", "M18-clock-not-advanced", (BR, "            self._holdings_quantity[self.base_currency] += accrued_interest\n            self._last_accrual = now", "            self._holdings_quantity[self.base_currency] += accrued_interest"), "S5.clock-advances-to-now")
M("C06", "M19-days-not-seconds", (BR, "        years = (now - self._last_accrual).total_seconds() / SECONDS_IN_YEAR", "        years = (now - self._last_accrual).days / 365"), "S3")
E("C06", "E1-np-power", (BR, "        rate_period = (1 + cagr) ** years - 1", "        growth = (1 + cagr) ** years\n        rate_period = growth - 1"))
E("C06", "E2-floor-swapped", (BR, "        if amount > 0. and accrued_interest < 0.:", "        if accrued_interest < 0 and 0 < amount:"))
E("C06", "E3-years-inline", (BR, "        years = (now - self._last_accrual).total_seconds() / SECONDS_IN_YEAR", "        elapsed = (now - self._last_accrual).total_seconds()\n        years = elapsed / (365 * 24 * 3600)"))

# ------------------------------------------------------------------ C03
M("C03", "M1-mid-price-sizing", (AL, "            avg_price = broker.exchange[contract].acq_price(weight)", "            avg_price = broker.exchange[contract].mid_price"), "S1.weights-to-contracts")
M("C03", "M2-no-multiplier", (AL, "            nr_contracts[contract] = weight * nlv / avg_price / contract.multiplier", "            nr_contracts[contract] = weight * nlv / avg_price"), "S1.weights-to-contracts")
M("C03", "M3-sub-filtered", (AL, "            for k, v in other.items():\n                mapping[k] = mapping.get(k, 0) - v", "            for k, v in other.items():\n                if k in mapping:\n                    mapping[k] = mapping.get(k, 0) - v"), "S2.subtraction-covers-all")
M("C03", "M4-relative-default", (RB, "        if self.absolute:\n            imbalance -= NrContracts(broker.holdings_quantity)", "        if not self.absolute:\n            imbalance -= NrContracts(broker.holdings_quantity)"), "S2.imbalance")
M("C03", "M5-sizing-before-accrual", (BR, "        rebalancing.profit_on_idle_cash = self.accrued_interest(rebalancing.time, True)\n        rebalancing.context_pre = self.context()\n        rebalancing.trades = rebalancing.make_trades(self)\n", "        rebalancing.trades = rebalancing.make_trades(self)\n        rebalancing.profit_on_idle_cash = self.accrued_interest(rebalancing.time, True)\n        rebalancing.context_pre = self.context()\n"), "S4")
M("C03", "M6-fee-adjusted-price", (AL, "            avg_price = broker.exchange[contract].acq_price(weight)\n", "            avg_price = broker.exchange[contract].acq_price(weight)\n            avg_price *= 1 + broker.fees.proportional\n"), "S1.weights-to-contracts")
M("C03", "M7-cached-target", [(RB, "        imbalance = self.allocation._to_nr_contracts(broker)\n", "        if getattr(self, '_target', None) is None:\n            self._target = self.allocation._to_nr_contracts(broker)\n        imbalance = self._target\n")], "S4")
M("C03", "M8-short-side-wrong", (AL, "            avg_price = broker.exchange[contract].acq_price(weight)", "            avg_price = broker.exchange[contract].acq_price(abs(weight))"), "S1.weights-to-contracts")
M("C03", "M9-nr-contracts-scaled", (AL, "        self.\"\"\"\n        return NrContracts(self)", "        self.\"\"\"\n        return NrContracts({k: int(v) for k, v in self.items()})"), "S5.identity-NrContracts")
M("C03", "M10-two-trades", (RB, "            trades.append(trade)\n", "            trades.append(trade)\n            if contract not in self.allocation:\n                trades.append(trade)\n"), "S3.one-append-per-item")
M("C03", "M11-sub-default-self", (AL, "                mapping[k] = mapping.get(k, 0) - v", "                mapping[k] = mapping.get(k, v) - v"), "S2.subtraction-covers-all")
M("C03", "M12-holdings-margins-subtracted", (RB, "            imbalance -= NrContracts(broker.holdings_quantity)", "            imbalance -= NrContracts(broker.holdings_margins)"), "S2.imbalance-absolute")
M("C03", "M13-weights-nlv-no-raise", (AL, "        nr_contracts = dict()\n        nlv = broker.net_liquidation_value()", "        nr_contracts = dict()\n        nlv = broker._initial_deposit"), "S1.weights-to-contracts")
M("C03", "M14-weight-price-other-side", (AL, "            prices = order_book.acq_price(quantity)", "            prices = order_book.liq_price(quantity)"), "S1.contracts-to-weights")
E("C03", "E1-reordered", (AL, "            nr_contracts[contract] = weight * nlv / avg_price / contract.multiplier", "            nr_contracts[contract] = (nlv * weight) / (contract.multiplier * avg_price)"))
E("C03", "E2-sub-local", (AL, "                mapping[k] = mapping.get(k, 0) - v", "                held = mapping.get(k, 0)\n                mapping[k] = held - v"))
E("C03", "E3-order-book-local", (AL, "            avg_price = broker.exchange[contract].acq_price(weight)", "            book = broker.exchange[contract]\n            avg_price = book.acq_price(weight)"))

# ------------------------------------------------------------------ C07
M("C07", "M1-pre-snapshot-after-trades", (BR, "        rebalancing.context_pre = self.context()\n        rebalancing.trades = rebalancing.make_trades(self)\n        for trade in rebalancing.trades:\n            self.transact(trade)\n", "        rebalancing.trades = rebalancing.make_trades(self)\n        for trade in rebalancing.trades:\n            self.transact(trade)\n        rebalancing.context_pre = self.context()\n"), "S4")
M("C07", "M2-second-checkpoint", (BR, "        self.track_record._checkpoint(rebalancing)", "        self.track_record._checkpoint(rebalancing)\n        if rebalancing.trades:\n            self.track_record._checkpoint(rebalancing)"), "S1.one-checkpoint-per-rebalance")
M("C07", "M3-reward-post-nlv", (RW, "class RewardSimpleReturn(AbstractReward):\n    \"\"\"Simple change of the net liquidation value of the account at each\n    step.\"\"\"\n\n    def calculate(self, env: \"tradingenv.env.TradingEnv\") -> float:\n        nlv_last_rebalancing = env.broker.track_record[-1].context_pre.nlv", "class RewardSimpleReturn(AbstractReward):\n    \"\"\"Simple change of the net liquidation value of the account at each\n    step.\"\"\"\n\n    def calculate(self, env: \"tradingenv.env.TradingEnv\") -> float:\n        nlv_last_rebalancing = env.broker.track_record[-1].context_post.nlv"), "S6")
M("C07", "M4-context-live-margins", (BR, "            margins=self.holdings_margins,", "            margins=self._holdings_margins,"), "S5.context-margins")
M("C07", "M5-pre-post-swapped", (TK, "            if before_rebalancing:\n                context = rebalancing.context_pre\n            else:\n                context = rebalancing.context_post\n            data[time] = context.nlv", "            if before_rebalancing:\n                context = rebalancing.context_post\n            else:\n                context = rebalancing.context_pre\n            data[time] = context.nlv"), "S7.nlv-pre-post-selection")
M("C07", "M6-checkpoint-wallclock", (TK, "        time = rebalancing.time\n        if isinstance(time, pd.Timestamp):", "        time = datetime.now()\n        if isinstance(time, pd.Timestamp):"), "S3.key-is-request-time")
M("C07", "M7-no-duplicate-guard", (TK, "        if time in self._time:\n            raise ValueError(\n                \"All RebalancingResponse must have different timestamps. \"\n                \"Duplicated timestamp found: {}\".format(time)\n            )\n", ""), "S2.duplicate-raises")
M("C07", "M8-stamp-before-latent", (EN, "        self._process_latent_events()\n        rebalancing = self.action_space.make_rebalancing_request(action, self.now(), self.broker)", "        now = self.now()\n        self._process_latent_events()\n        rebalancing = self.action_space.make_rebalancing_request(action, now, self.broker)"), "S3")
M("C07", "M9-reward-before-market-events", (EN, "        self._process_nonlatent_events()\n        reward = self._reward.calculate(self)\n", "        reward = self._reward.calculate(self)\n        self._process_nonlatent_events()\n"), "S6.reward-after-market-events")
M("C07", "M10-log-reward-no-scale", (RW, "        ret /= self.scale\n", ""), "S6.reward-formula")
M("C07", "M11-pnl-ratio", (RW, "        return float(nlv_now - nlv_last_rebalancing)", "        return float(nlv_now - nlv_last_rebalancing) / nlv_last_rebalancing"), "S6.reward-formula")
M("C07", "M12-map-only-when-trades", (TK, "        self._time.append(time)\n        self._rebalancing[time] = rebalancing", "        self._time.append(time)\n        if len(rebalancing.trades) != 0 or not self._rebalancing:\n            self._rebalancing[time] = rebalancing"), "S1.checkpoint-extends-request-map")
M("C07", "M13-reward-first-entry", (RW, "class RewardLogReturn(AbstractReward):\n    \"\"\"Log change of the net liquidation value of the account at each step.\"\"\"\n\n    def calculate(self, env: \"tradingenv.env.TradingEnv\") -> float:\n        nlv_last_rebalancing = env.broker.track_record[-1].context_pre.nlv", "class RewardLogReturn(AbstractReward):\n    \"\"\"Log change of the net liquidation value of the account at each step.\"\"\"\n\n    def calculate(self, env: \"tradingenv.env.TradingEnv\") -> float:\n        nlv_last_rebalancing = env.broker.track_record[0].context_pre.nlv"), "S6")
M("C07", "M14-costs-post", (TK, "            cost_of_commissions[time] = sum(trade.cost_of_commissions for trade in rebalancing.trades)", "            cost_of_commissions[time] = sum(trade.cost_of_spread for trade in rebalancing.trades)"), "S7.costs-cost_of_commissions")
M("C07", "M15-clip-before-scale", (RW, "        ret /= self.scale\n        ret = np.clip(ret, -self.clip, +self.clip)", "        ret = np.clip(ret, -self.clip, +self.clip)\n        ret /= self.scale"), "S6.reward-formula")
M("C07", "M16-env-second-rebalance", (EN, "        self._process_nonlatent_events()\n        reward =", "        self._process_nonlatent_events()\n        if self._steps_delay < 0:\n            self.broker.rebalance(rebalancing)\n        reward ="), None)
M("C07", "M17-quantity-live", (BR, "        return dict(self._holdings_quantity)", "        return self._holdings_quantity"), "S5.holdings_quantity-returns-copy")
E("C07", "E1-context-from-locals", (BR, "        return Context(\n            nlv=self.net_liquidation_value(),", "        return Context(\n            nlv=self.net_liquidation_value(raise_if_broke=True),"))
E("C07", "E2-reward-inline", (RW, "        nlv_last_rebalancing = env.broker.track_record[-1].context_pre.nlv\n        nlv_now = env.broker.net_liquidation_value()\n        return float(nlv_now - nlv_last_rebalancing)", "        broker = env.broker\n        before = broker.track_record[-1].context_pre.nlv\n        return float(broker.net_liquidation_value() - before)"))


def R(prop, id, patch, rule=None):
    """Regression: the reverse of a 'fix:' commit (the defect as it was found)."""
    import os
    CATALOGUE.append({"prop": prop, "id": f"{prop}/{id}", "patch": os.path.join(os.path.dirname(os.path.abspath(__file__)), "regressions", patch), "expect": "fire", "rule": rule})


R("C01", "R-F1-liquidation-multiplier", "F1-C01.diff", "S6.value-liquidation")
R("C05", "R-F1-liquidation-multiplier", "F1-C01.diff", "S6.value-liquidation")
R("C04", "R-F3-clock-before-newdate", "F3-C04.diff", "S8.no-clock-move-before-dispatch")
R("C04", "R-F4-history-latent-first", "F4-C04.diff", "S7.history-batch-ordered")
R("C12", "R-F8-zero-lot", "F8-C12.diff", "S4.nonzero-into-trade")

# ------------------------------------------------------------------ C04
M("C04", "M1-latency-strict", (TM, "                if sec_since_timestep <= latency:", "                if sec_since_timestep < latency:"), "S5.latent-iff-within-latency")
M("C04", "M2-both-appends", (TM, "                if sec_since_timestep <= latency:\n                    self._partition_latent[timestep].append(event)\n                else:\n                    self._partition_nonlatent[timestep].append(event)", "                if sec_since_timestep <= latency:\n                    self._partition_latent[timestep].append(event)\n                self._partition_nonlatent[timestep].append(event)"), "S2")
M("C04", "M3-lt-compares-id", (EV, "        return self.time < other.time", "        return (self.time, id(self)) < (other.time, id(other))"), "S4.event-order-__lt__")
M("C04", "M4-step-stamped-last-event", (EN, "        self.notify(EventStep(self.now(), self.broker.track_record, action))", "        self.notify(EventStep(self._last_event.time, self.broker.track_record, action))"), "S8.own-events-stamped-now")
M("C04", "M5-env-clears-batch", (EN, "        self._events_latent = list()", "        self._events_latent.clear()"), "S2")
M("C04", "M6-bisect-right", (TM, "                index = bisect.bisect_left(self.timesteps, event.time)", "                index = bisect.bisect_right(self.timesteps, event.time)"), "S1.slot-is-bisect-left")
M("C04", "M7-truncated-seconds", (TM, "                sec_since_timestep = (event.time - timestep_previous).total_seconds()", "                sec_since_timestep = (event.time - timestep_previous) // timedelta(seconds=1)"), "S5")
M("C04", "M8-days-seconds", (TM, "                sec_since_timestep = (event.time - timestep_previous).total_seconds()", "                elapsed = event.time - timestep_previous\n                sec_since_timestep = elapsed.days * 86400 + elapsed.seconds"), "S5")
M("C04", "M9-vars-not-dir", (EV, "        for attr_name in dir(self.__class__):", "        for attr_name in vars(self.__class__):"), "S2.subscriptions-cover-mro")
M("C04", "M10-per-batch-sort", [(TM, "        self.events.extend(events)", "        self.events.extend(sorted(events))"), (TM, "        events = sorted(e for e in self.events if e.time <= self.timesteps[-1])", "        events = [e for e in self.events if e.time <= self.timesteps[-1]]"), (TM, "        for event in sorted(events):", "        for event in events:")], "S4.global-stable-sort")
M("C04", "M11-grid-filter-strict", [(TM, "        events = sorted(e for e in self.events if e.time <= self.timesteps[-1])", "        events = sorted(e for e in self.events if e.time < self.timesteps[-1])"), (TM, "            if event.time <= self.timesteps[-1]:", "            if event.time < self.timesteps[-1]:")], "S3.after-grid-filter")
M("C04", "M12-markov-history", (TM, "        if (self._step_nr == 1) and (not self._markov_reset):", "        if (self._step_nr == 1):"), "S9.history-on-first-step-only")
M("C04", "M13-latency-bound-gt", (TM, "        if latency >= self._min_timesteps_diff():", "        if latency > self._min_timesteps_diff():"), "S6.latency-below-min-gap")
M("C04", "M14-prefetch-first", (EN, "        for event in self._events_nonlatent:\n            self.notify(event)\n        try:\n            self._events_latent, self._events_nonlatent = self._transmitter._next()\n        except StopIteration:\n            self._done = True", "        events = self._events_nonlatent\n        try:\n            self._events_latent, self._events_nonlatent = self._transmitter._next()\n        except StopIteration:\n            self._done = True\n        for event in events:\n            self.notify(event)"), "S2")
M("C04", "M15-pair-swapped", (EN, "            self._events_latent, self._events_nonlatent = self._transmitter._next()\n        except StopIteration:", "            self._events_nonlatent, self._events_latent = self._transmitter._next()\n        except StopIteration:"), "S7.batch-order-latent-first")
M("C04", "M16-history-no-upper-bound", (TM, "                if origin <= t <= self._current_time\n            )\n            events_latent = list()", "                if origin <= t\n            )\n            events_latent = list()"), "S9.history-upper-bound")
M("C04", "M17-callback-twice", (EV, "                callback(self)\n                observer.last_update = self.time", "                callback(self)\n                if observer._nr_callbacks == 0:\n                    callback(self)\n                observer.last_update = self.time"), "S2")
M("C04", "M18-previous-timestep-wrong", (TM, "                index_previous = index - 1\n", "                index_previous = index - 2\n"), "S5")
M("C04", "M19-pointer-double", (TM, "        self._step_nr += 1\n", "        self._step_nr += 2\n"), "S2.step-pointer-advances-once")
M("C04", "M20-grid-not-deduped", (TM, "        self.timesteps = sorted(set(self.timesteps))", "        self.timesteps = sorted(self.timesteps)"), "S1.grid-sorted-unique")
M("C04", "M21-newdate-stamped-now", (EN, "            self.notify(EventNewDate(self._last_event.time, self.broker))", "            self.notify(EventNewDate(event.time, self.broker))"), "S8.newdate-stamp")
M("C04", "M22-last-event-before-dispatch", (EN, "        event.notify(self._observers)\n        self._last_event = event", "        self._last_event = event\n        event.notify(self._observers)"), "S8.last-event-after-dispatch")
M("C04", "M23-history-desc", (TM, "            timesteps = sorted(\n                t for t in set(self._partition_latent) | set(self._partition_nonlatent)\n                if origin <= t <= self._current_time\n            )", "            timesteps = [\n                t for t in set(self._partition_latent) | set(self._partition_nonlatent)\n                if origin <= t <= self._current_time\n            ]"), "S7.history-batch-ordered")
E("C04", "E1-else-first", (TM, "                if sec_since_timestep <= latency:\n                    self._partition_latent[timestep].append(event)\n                else:\n                    self._partition_nonlatent[timestep].append(event)", "                if sec_since_timestep > latency:\n                    self._partition_nonlatent[timestep].append(event)\n                else:\n                    self._partition_latent[timestep].append(event)"))
E("C04", "E2-sort-in-place", (TM, "        events = sorted(e for e in self.events if e.time <= self.timesteps[-1])", "        events = sorted([e for e in self.events if e.time <= self.timesteps[-1]])"))
E("C04", "E3-iterate-copy", (EN, "        for event in self._events_latent:\n            self.notify(event)\n        self._events_latent = list()", "        for event in list(self._events_latent):\n            self.notify(event)\n        self._events_latent = []"))

# ------------------------------------------------------------------ C02
M("C02", "M1-index-minus-one", (TM, "                timestep = self.timesteps[index]", "                timestep = self.timesteps[max(index - 1, 0)]"), "S1.slot-is-bisect-left")
M("C02", "M2-history-unbounded", (TM, "                if origin <= t <= self._current_time\n            )\n            events_latent = list()", "                if origin <= t\n            )\n            events_latent = list()"), "S9.history-upper-bound")
M("C02", "M3-reward-peeks", (RW, "        nlv_last_rebalancing = env.broker.track_record[-1].context_pre.nlv\n        nlv_now = env.broker.net_liquidation_value()\n        return float(np.log(nlv_now / nlv_last_rebalancing))", "        nlv_last_rebalancing = env.broker.track_record[-1].context_pre.nlv\n        nlv_now = env.broker.net_liquidation_value()\n        bonus = 0.0 * len(env._events_nonlatent or [])\n        return float(np.log(nlv_now / nlv_last_rebalancing)) + bonus"), "S3.prefetched-batch-private")
M("C02", "M4-fit-full-frame", (EN, "            self.transformer.fit(X.loc[:transformer_end])", "            self.transformer.fit(X)"), "S6.fit-up-to-transformer-end")
M("C02", "M5-scale-full-frame", (EN, "scale = np.log(pd.DataFrame(Y).loc[:transformer_end]).diff().std().mean().item()", "scale = np.log(pd.DataFrame(Y)).diff().std().mean().item()"), "S6.reductions-up-to-transformer-end")
M("C02", "M6-bfill", (EN, "        X.ffill(inplace=True)\n", "        X = X.ffill().bfill()\n"), "S6.no-backward-looking-op")
M("C02", "M7-prefetch-before-dispatch", (EN, "        for event in self._events_nonlatent:\n            self.notify(event)\n        try:\n            self._events_latent, self._events_nonlatent = self._transmitter._next()\n        except StopIteration:\n            self._done = True", "        events = self._events_nonlatent\n        try:\n            self._events_latent, self._events_nonlatent = self._transmitter._next()\n        except StopIteration:\n            self._done = True\n        for event in events:\n            self.notify(event)"), None)
M("C02", "M8-latent-moved-out-of-step", [(EN, "        action = self._queue_actions.pop()\n        self._process_latent_events()\n", "        action = self._queue_actions.pop()\n"), (EN, "            self._events_latent, self._events_nonlatent = self._transmitter._next()\n        except StopIteration:\n            self._done = True", "            self._events_latent, self._events_nonlatent = self._transmitter._next()\n        except StopIteration:\n            self._done = True\n        else:\n            self._process_latent_events()")], "S4")
M("C02", "M9-nonlatent-before-rebalance", (EN, "        self._process_latent_events()\n        rebalancing = self.action_space.make_rebalancing_request(action, self.now(), self.broker)", "        self._process_latent_events()\n        self._process_nonlatent_events()\n        rebalancing = self.action_space.make_rebalancing_request(action, self.now(), self.broker)"), "S4")
M("C02", "M10-feature-reads-transmitter", (LB, "        w = [self.exchange[contract].mid_price for contract in self.contracts]", "        w = [self.exchange[contract].mid_price for contract in self.contracts]\n        _ = getattr(self, 'env', None) and self.env._transmitter._partition_nonlatent"), "S3")
M("C02", "M11-direct-callback", (EN, "        for event in self._events_latent:\n            self.notify(event)", "        for event in self._events_latent:\n            self.exchange.process_EventNBBO(event) if hasattr(event, 'bid_price') else self.notify(event)"), "S5.callbacks-only-via-notify")
M("C02", "M12-transform-beyond-end", (EN, "        X = self.transformer.transform(X.loc[:end])", "        X = self.transformer.transform(X)"), "S6.transform-up-to-end")
M("C02", "M13-negative-shift", (EN, "        X.fillna(0., inplace=True)\n", "        X.fillna(0., inplace=True)\n        X = X.shift(-1).fillna(0.)\n"), "S6.no-backward-looking-op")
M("C02", "M14-queue-prepend", (ST, "        self.queue.append([event.to_list()])\n        self.last_event = event", "        self.queue.appendleft([event.to_list()])\n        self.last_event = event"), "S7")
M("C02", "M15-transformer-end-ignored", (EN, "        transformer_end = transformer_end or end\n", "        transformer_end = end\n"), "S6.transformer-end-default")
M("C02", "M16-truncated-latency", (TM, "                sec_since_timestep = (event.time - timestep_previous).total_seconds()", "                elapsed = event.time - timestep_previous\n                sec_since_timestep = elapsed.days * 86400 + elapsed.seconds"), "S5")
M("C02", "M17-reward-before-events-state-after", (EN, "        self._process_nonlatent_events()\n        reward = self._reward.calculate(self)\n", "        reward = self._reward.calculate(self)\n        self._process_nonlatent_events()\n"), "S4")
E("C02", "E1-searchsorted", [(TM, "                index = bisect.bisect_left(self.timesteps, event.time)", "                index = np.searchsorted(self.timesteps, event.time)")])
E("C02", "E2-scale-local", (EN, "            scale = np.log(pd.DataFrame(Y).loc[:transformer_end]).diff().std().mean().item()", "            Y_fit = pd.DataFrame(Y).loc[:transformer_end]\n            scale = np.log(Y_fit).diff().std().mean().item()"))

# ------------------------------------------------------------------ C08
R("C08", "R-F5-discrete-null-action", "F5-C08.diff", "S3.null-action-member")
M("C08", "M1-lifo", (EN, "        self._queue_actions.appendleft(action)", "        self._queue_actions.append(action)"), "S1.fifo-pair")
M("C08", "M2-maxlen-d", (EN, "            maxlen=self._steps_delay + 1,", "            maxlen=self._steps_delay,"), "S1.capacity-is-d-plus-1")
M("C08", "M3-prefill-d-plus-1", (EN, "[self.action_space.null_action() for _ in range(self._steps_delay)]", "[self.action_space.null_action() for _ in range(self._steps_delay + 1)]"), "S1.prefill-is-d")
M("C08", "M4-pop-before-insert", (EN, "        self._queue_actions.appendleft(action)\n        action = self._queue_actions.pop()", "        due = self._queue_actions.pop() if self._queue_actions else action\n        self._queue_actions.appendleft(action)\n        action = due"), "S1")
M("C08", "M5-queue-kept-across-reset", (EN, "        self._queue_actions = deque(\n            [self.action_space.null_action() for _ in range(self._steps_delay)],\n            maxlen=self._steps_delay + 1,\n        )", "        if not self._queue_actions:\n            self._queue_actions = deque(\n                [self.action_space.null_action() for _ in range(self._steps_delay)],\n                maxlen=self._steps_delay + 1,\n            )"), "S1.queue-rebuilt-at-reset")
M("C08", "M6-latent-after-rebalance", (EN, "        self._process_latent_events()\n        rebalancing = self.action_space.make_rebalancing_request(action, self.now(), self.broker)\n        try:\n            self.broker.rebalance(rebalancing)\n        except EndOfEpisodeError:\n            info = dict()\n            self._done = True\n        else:\n            info = {\"_rebalancing\": rebalancing}\n", "        rebalancing = self.action_space.make_rebalancing_request(action, self.now(), self.broker)\n        try:\n            self.broker.rebalance(rebalancing)\n        except EndOfEpisodeError:\n            info = dict()\n            self._done = True\n        else:\n            info = {\"_rebalancing\": rebalancing}\n        self._process_latent_events()\n"), "S4")
M("C08", "M7-latency-strict", (TM, "                if sec_since_timestep <= latency:", "                if sec_since_timestep < latency:"), "S5.latent-iff-within-latency")
M("C08", "M8-executes-submitted", (EN, "        self._queue_actions.appendleft(action)\n        action = self._queue_actions.pop()", "        self._queue_actions.appendleft(action)\n        self._queue_actions.pop()"), "S1.executes-removed-action")
M("C08", "M9-box-null-ones", (SP, "        return self.sample() * 0.", "        return self.sample() * 1."), "S3.null-action-member")
M("C08", "M10-policy-touches-queue", (EN, "        self._visits[self.now()] += 1\n", "        self._visits[self.now()] += 1\n        if self._done:\n            self._queue_actions.clear()\n"), "S1")
M("C08", "M11-prefill-sample", (EN, "[self.action_space.null_action() for _ in range(self._steps_delay)]", "[self.action_space.sample() for _ in range(self._steps_delay)]"), "S1.prefill-null-actions")
E("C08", "E1-append-popleft", (EN, "        self._queue_actions.appendleft(action)\n        action = self._queue_actions.pop()", "        self._queue_actions.append(action)\n        action = self._queue_actions.popleft()"))
E("C08", "E2-prefill-mult", (EN, "            [self.action_space.null_action() for _ in range(self._steps_delay)],\n            maxlen=self._steps_delay + 1,", "            [self.action_space.null_action() for _ in range(self._steps_delay)],\n            maxlen=1 + self._steps_delay,"))

# ------------------------------------------------------------------ C15
M("C15", "M1-upper-strict", (TM, "        steps = steps[steps <= end_date]", "        steps = steps[steps < end_date]"), "S1")
M("C15", "M2-starts-off-by-one", (TM, "            start_dates = steps[: -(episode_length - 1)]", "            start_dates = steps[: -episode_length]"), "S2.candidate-starts")
M("C15", "M3-window-too-long", (TM, "            end_date_idx = start_date_idx + episode_length - 1", "            end_date_idx = start_date_idx + episode_length"), "S2.window-length")
M("C15", "M4-test-end-off", (TM, "            test_end=train_start + train_size + test_size - 1,", "            test_end=train_start + train_size + test_size,"), "S5.test-window-size")
M("C15", "M5-stride-off", (TM, "        train_start = count[: -train_size - test_size + 1 : test_size]", "        train_start = count[: -train_size - test_size + 1 : test_size - 1]"), "S5.stride-is-test-size")
M("C15", "M6-no-increment", (EN, "        if episode_length:\n            # Adding 1 because there are (episode_length - 1) actions otherwise.\n            episode_length += 1\n", ""), "S3.n-decisions-n-plus-1-states")
M("C15", "M7-lower-strict", (TM, "        steps = steps[start_date <= steps]", "        steps = steps[start_date < steps]"), "S1")
M("C15", "M8-draw-first-half", (TM, "            start_date_idx = np.random.choice(range(len(start_dates)), p=p)", "            start_date_idx = np.random.choice(range(len(start_dates) // 2 + 1), p=p)"), "S2.start-drawn-over-all-candidates")
M("C15", "M9-test-overlaps-train", (TM, "            test_start=train_start + train_size,", "            test_start=train_start + train_size - 1,"), "S5")
M("C15", "M10-done-overwritten", (EN, "        try:\n            self._events_latent, self._events_nonlatent = self._transmitter._next()\n        except StopIteration:\n            self._done = True", "        exhausted = False\n        try:\n            self._events_latent, self._events_nonlatent = self._transmitter._next()\n        except StopIteration:\n            exhausted = True\n        self._done = exhausted"), "S3")
M("C15", "M11-fold-check-inverted", (TM, "            if end < start:", "            if end > start and False:"), "S1.fold-well-formed")
M("C15", "M12-unsorted-steps", (TM, "        steps = np.sort(list(timesteps))", "        steps = np.array(list(timesteps))"), "S1.steps-sorted-event-bearing")
M("C15", "M13-weights-not-normalised", (TM, "                p /= p.sum()\n", ""), "S2.weights-normalised")
M("C15", "M14-last-fold-overruns", (TM, "        train_start = count[: -train_size - test_size + 1 : test_size]", "        train_start = count[: -train_size + 1 : test_size]"), "S5.last-fold-fits")
M("C15", "M15-only-nonlatent-steps", (TM, "        timesteps = set(self._partition_nonlatent) | set(self._partition_latent)", "        timesteps = set(self._partition_nonlatent)"), "S1.steps-sorted-event-bearing")
E("C15", "E1-end-local", (TM, "            end_date_idx = start_date_idx + episode_length - 1", "            last = episode_length - 1\n            end_date_idx = start_date_idx + last"))
E("C15", "E2-mask-flipped", (TM, "        steps = steps[steps <= end_date]", "        steps = steps[end_date >= steps]"))

# ------------------------------------------------------------------ C10
M("C10", "M1-class-store-in-next", (TM, "        self._step_nr += 1\n", "        self._step_nr += 1\n        Transmitter.CURRENT = self._current_time\n"), "S1.no-process-wide-store")
M("C10", "M2-last-event-not-reset", (EN, "        self._done = False\n        self._last_event = None\n", "        self._done = False\n"), "S3.reset-reassigns")
M("C10", "M3-state-last-event-in-new", (ST, "        self.queue = deque(maxlen=window)\n        self.last_event = None\n", "        self.queue = deque(maxlen=window)\n"), "S4.observer-state-reinitialised")
M("C10", "M4-stateful-reward", (RW, "    def calculate(self, env: \"tradingenv.env.TradingEnv\") -> float:\n        nlv_last_rebalancing = env.broker.track_record[-1].context_pre.nlv\n        nlv_now = env.broker.net_liquidation_value()\n        return float(nlv_now - nlv_last_rebalancing)", "    def calculate(self, env: \"tradingenv.env.TradingEnv\") -> float:\n        nlv_last_rebalancing = env.broker.track_record[-1].context_pre.nlv\n        nlv_now = env.broker.net_liquidation_value()\n        self._prev = nlv_now\n        return float(nlv_now - nlv_last_rebalancing)"), "S6.reward-state-reset")
M("C10", "M5-wallclock-in-step", (EN, "        self._visits[self.now()] += 1\n", "        self._visits[datetime.now()] += 1\n"), "S2.no-hidden-input")
M("C10", "M6-shared-default-exchange", (BR, "        exchange: Exchange,\n        base_currency: Cash = Cash(),", "        exchange: Exchange = Exchange(),\n        base_currency: Cash = Cash(),"), "S7.no-shared-default-object")
M("C10", "M7-queue-kept", (EN, "        self._queue_actions = deque(\n            [self.action_space.null_action() for _ in range(self._steps_delay)],\n            maxlen=self._steps_delay + 1,\n        )", "        if self._queue_actions is None:\n            self._queue_actions = deque(\n                [self.action_space.null_action() for _ in range(self._steps_delay)],\n                maxlen=self._steps_delay + 1,\n            )"), "S3.reset-reassigns")
M("C10", "M8-class-level-ledger", [(BR, "        self._last_accrual: Union[datetime, None] = None\n        self._last_marking_to_market_price = dict()\n", ""), (BR, "    def __init__(\n        self,\n        exchange: Exchange,", "    _last_accrual: Union[datetime, None] = None\n    _last_marking_to_market_price: dict = dict()\n\n    def __init__(\n        self,\n        exchange: Exchange,")], "S1.no-shared-class-container")
M("C10", "M9-batch-cleared-in-place", (EN, "        self._events_latent = list()", "        self._events_latent.clear()"), "S5.batches-not-mutated")
M("C10", "M10-broker-reused", (EN, "        self.broker = Broker(\n            exchange=self.exchange,\n            base_currency=self.action_space.base_currency,\n            deposit=self._initial_cash,\n            fees=self._broker_fees,\n        )", "        if self.broker is None:\n            self.broker = Broker(\n                exchange=self.exchange,\n                base_currency=self.action_space.base_currency,\n                deposit=self._initial_cash,\n                fees=self._broker_fees,\n            )"), "S3")
M("C10", "M11-observer-reset-no-init", (EV, "        self.__init__(*self._init_args, **self._init_kwargs)\n        self.last_update = None", "        self.last_update = None"), "S4.observer-reset-reruns-init")
M("C10", "M12-step-pointer-not-rewound", (TM, "        self._step_nr = 0\n        self._current_time = np.nan", "        self._current_time = np.nan"), "S5.transmitter-reset-reassigns")
M("C10", "M13-mutable-default", (ST, "    def __init__(self, features: Sequence[Feature] = None, save: bool = True):", "    def __init__(self, features: Sequence[Feature] = None, save: bool = True, cache: dict = {}):"), "S7.no-mutable-default")
M("C10", "M14-feature-history-kept", (FT, "        self.save = save\n        self.history: Dict[datetime, Any] = dict()", "        self.save = save\n        if not hasattr(self, 'history'):\n            self.history: Dict[datetime, Any] = dict()"), "S4")
M("C10", "M15-set-iteration", (TM, "        steps = np.sort(list(timesteps))", "        steps = np.array([t for t in set(self._partition_nonlatent) | set(self._partition_latent)])"), "S2.no-set-order-dependence")
M("C10", "M16-reward-not-reset", (EN, "        self._reward.reset()\n", ""), "S")
M("C10", "M17-state-reset-skips-super", (ST, "        \"\"\"Reset state and features for next episode.\"\"\"\n        super().reset()\n", "        \"\"\"Reset state and features for next episode.\"\"\"\n"), "S4.reset-chains-to-super")
E("C10", "E1-reset-order", (EN, "        self._done = False\n        self._last_event = None\n", "        self._last_event = None\n        self._done = False\n"))

# ------------------------------------------------------------------ C11
M("C11", "M1-bisect-left", [(CO, "from bisect import bisect_right", "from bisect import bisect_right, bisect_left"), (CO, "        idx = bisect_right(self._last_trading_dates, now)", "        idx = bisect_left(self._last_trading_dates, now)")], "S1.lead-index")
M("C11", "M2-month-offset-dropped", (CO, "        idx += self._month\n        return idx", "        return idx"), "S1.lead-index")
M("C11", "M3-getitem-raw-key", (EX, "        if isinstance(key, AbstractContract):\n            key = key.static_hashing()  # TODO: Test\n", ""), "S3.exchange-normalises-key")
M("C11", "M4-given-contracts-unsorted", (CO, "            self.contracts = sorted(contracts)", "            self.contracts = list(contracts)"), "S2")
M("C11", "M5-no-events", (CO, "        return [EventContractDiscontinued(time=self.expiry, contract=self)]", "        return []"), "S5.one-discontinuation-at-expiry")
M("C11", "M6-event-at-last-trading-date", (CO, "        return [EventContractDiscontinued(time=self.expiry, contract=self)]", "        return [EventContractDiscontinued(time=self.last_trading_date, contract=self)]"), "S5.one-discontinuation-at-expiry")
M("C11", "M7-lead-cached", (CO, "        idx = self._lead_contract_idx(now)\n        idx += month\n        return self.contracts[idx]", "        if getattr(self, '_cache_now', None) != now:\n            self._cache_now = now\n            self._cache_lead = self.contracts[self._lead_contract_idx(now) + month]\n        return self._cache_lead"), "S1.lead-not-cached")
M("C11", "M8-chain-events-only-first", (CO, "        for future in self.contracts:\n            events.extend(future.make_events())", "        for future in self.contracts[:1]:\n            events.extend(future.make_events())"), "S5.chain-covers-all-contracts")
M("C11", "M9-order-by-expiry-desc", (CO, "        return self.last_trading_date < other.last_trading_date", "        return self.last_trading_date > other.last_trading_date"), "S2.order-by-last-trading-date")
M("C11", "M10-allocation-raw-key", (AL, "            contract.static_hashing(): value", "            contract: value"), "alloc.static-hashing-key")
M("C11", "M11-symbol-first-contract", (CO, "        contract symbol is 'ESZ19'.\"\"\"\n        return self.lead_contract().symbol", "        contract symbol is 'ESZ19'.\"\"\"\n        return self.contracts[0].symbol"), "S3.chain-symbol-follows-lead")
M("C11", "M12-discontinue-known-books-only", (EX, "        self[event.contract].terminate(event)", "        if event.contract in self._books:\n            self[event.contract].terminate(event)"), "S5.discontinuation-terminates-book")
M("C11", "M13-partitions-before-events", (EN, "        for contract in self.action_space.contracts:\n            self._transmitter.add_events(contract.make_events())\n        self._transmitter._create_partitions(latency)", "        self._transmitter._create_partitions(latency)\n        for contract in self.action_space.contracts:\n            self._transmitter.add_events(contract.make_events())"), "S5.events-before-partitions")
M("C11", "M14-threshold-ignores-target-membership", (RB, "            if abs(weights[contract]) < self.margin and contract in self.allocation:", "            if abs(weights[contract]) < self.margin:"), "S4.untargeted-exempt-from-threshold")
M("C11", "M15-dates-reversed", (CO, "        self._last_trading_dates = [\n            future.last_trading_date for future in self.contracts\n        ]", "        self._last_trading_dates = [\n            future.last_trading_date for future in reversed(self.contracts)\n        ]"), "S2.dates-follow-contracts")
M("C11", "M16-now-always-clock", (CO, "        if now is None:\n            now = self.now\n        idx = bisect_right(self._last_trading_dates, now)", "        now = self.now\n        idx = bisect_right(self._last_trading_dates, now)"), "S1.now-defaults-to-clock")
E("C11", "E1-import-alias", [(CO, "from bisect import bisect_right", "import bisect"), (CO, "        idx = bisect_right(self._last_trading_dates, now)", "        idx = bisect.bisect_right(self._last_trading_dates, now)")])
E("C11", "E2-idx-inline", (CO, "        idx = bisect_right(self._last_trading_dates, now)\n        idx += self._month\n        return idx", "        return self._month + bisect_right(self._last_trading_dates, now)"))

# ------------------------------------------------------------------ C19
R("C19", "R-F9-vx-freq", "F9-C19.diff", "S1.freq-alias-valid")
M("C19", "M1-nk-freq-Q", (CO, "    exists_since = datetime(1990, 11, 8)  # see reference [1]\n    freq = \"QE-DEC\"", "    exists_since = datetime(1990, 11, 8)  # see reference [1]\n    freq = \"Q\""), "S1.freq-alias-valid")
M("C19", "M2-cutoff-after-expiry", (CO, "        return expiry - timedelta(days=8)", "        return expiry + timedelta(days=8)"), "S2.cutoff-before-expiry")
M("C19", "M3-month-code-duplicate", (CO, "        7: \"N\",\n", "        7: \"M\",\n"), "S3.month-codes")
M("C19", "M4-discontinued-at-cutoff", (CO, "        return [EventContractDiscontinued(time=self.expiry, contract=self)]", "        return [EventContractDiscontinued(time=self.last_trading_date, contract=self)]"), "S5.one-discontinuation-at-expiry")
M("C19", "M5-subclass-without-multiplier", (CO, "class ZB(_Treasury):\n    multiplier = 1000\n    margin_requirement = 0.05", "class ZB(_Treasury):\n    margin_requirement = 0.05"), "S6.class-complete")
M("C19", "M6-es-second-friday", (CO, "        return dates[\"Friday\"][2]", "        return dates[\"Friday\"][1]"), "S3.rule-constant-ES")
M("C19", "M7-vx-29-days", (CO, "        expiration = next_month_third_friday - timedelta(days=30)", "        expiration = next_month_third_friday - timedelta(days=29)"), "S3.rule-constant-VX")
M("C19", "M8-vx-friday-formula", (CO, "                                     1) + 2) % 7", "                                     1) + 3) % 7"), "S3.rule-constant-VX")
M("C19", "M9-treasury-calendar-days", (CO, "        dates = pd.date_range(datetime(year, month, 1), periods=31, freq=\"B\")", "        dates = pd.date_range(datetime(year, month, 1), periods=31, freq=\"D\")"), "S3.rule-constant-treasury")
M("C19", "M10-year-four-digits", (CO, "            year_code=self.expiry.strftime(\"%y\"),", "            year_code=self.expiry.strftime(\"%Y\"),"), "S3.symbol-shape")
M("C19", "M11-month-code-of-cutoff", (CO, "            month_code=self.month_codes[self.expiry.month],", "            month_code=self.month_codes[self.last_trading_date.month],"), "S3.symbol-shape")
M("C19", "M12-es-days-skip-first", (CO, "        for day in range(1, nr_days + 1):\n            date = datetime(year, month, day)\n            weekday = date.strftime(\"%A\")\n            dates[weekday].append(date)\n        return dates[\"Friday\"][2]", "        for day in range(2, nr_days + 1):\n            date = datetime(year, month, day)\n            weekday = date.strftime(\"%A\")\n            dates[weekday].append(date)\n        return dates[\"Friday\"][2]"), "S3.rule-enumerates-month-ES")
M("C19", "M13-vx-cutoff-zero", (CO, "        return expiry - BDay(2)", "        return expiry - BDay(0)"), "S2")
M("C19", "M14-nk-cutoff-changed", (CO, "        return expiry - timedelta(days=14)  # NOTE", "        return expiry - timedelta(days=7)  # NOTE"), "S2.cutoff-constant-NK")
M("C19", "M15-treasury-freq-annual", (CO, "    exists_since = datetime(1970, 1, 1)\n    freq = \"QE-DEC\"", "    exists_since = datetime(1970, 1, 1)\n    freq = \"A-DEC\""), "S1.freq-alias-valid")
E("C19", "E1-freq-constant", [(CO, "class ES(Future):", "_QUARTERLY = \"QE-DEC\"\n\n\nclass ES(Future):")])
E("C19", "E2-vx-rename-locals", [(CO, "        this_month = datetime(year, month, 1)\n        next_month = this_month + timedelta(days=32)", "        first = datetime(year, month, 1)\n        next_month = first + timedelta(days=32)")])

# ------------------------------------------------------------------ C16
M("C16", "M1-drawdown-absolute", (ME, "        return level / level.cummax() - 1", "        return level - level.cummax()"), "S1.scale-invariant")
M("C16", "M2-returns-diff", (ME, "        simple_returns = level.pct_change()  # fill_method=None", "        simple_returns = level.diff()  # fill_method=None"), "S1.scale-invariant")
M("C16", "M3-log-std", (ME, "        return np.sqrt(BDAYS) * self.simple_returns().std()", "        return np.sqrt(BDAYS) * np.log(self.level()).std()"), "S1.scale-invariant")
M("C16", "M4-level-no-validate", (ME, "        self.validate()\n        if len(np.unique(self.index.date)) != len(self.index.date):", "        if len(np.unique(self.index.date)) != len(self.index.date):"), "S2")
M("C16", "M5-validate-strict", (ME, "        if np.any(np.any(self.values <= 0)):", "        if np.any(np.any(self.values < 0)):"), "S3.rejects-non-positive")
M("C16", "M6-cagr-365.25", (ME, "        return self.nr_calendar_days() / 365", "        return self.nr_calendar_days() / 365.25"), "S4.formula")
M("C16", "M7-drawdown-raw-self", (ME, "        level = self.level()\n        return level / level.cummax() - 1", "        return self / self.cummax() - 1"), "S2.no-arithmetic-on-unvalidated-self")
M("C16", "M8-vol-bdays-260", (ME, "BDAYS = 252", "BDAYS = 260"), "S4.bdays")
M("C16", "M9-sharpe-no-excess", (ME, "        return self.excess_cagr(risk_free) / self.volatility()", "        return self.cagr() / self.volatility()"), "S4.formula")
M("C16", "M10-es-strict", (ME, "        tail = simple_returns[simple_returns <= value_at_risk]", "        tail = simple_returns[simple_returns < value_at_risk]"), "S4.formula")
M("C16", "M11-calmar-sign", (ME, "        return self.excess_cagr(risk_free) / -self.max_drawdown()", "        return self.excess_cagr(risk_free) / self.max_drawdown()"), "S4.formula")
M("C16", "M12-validate-dup-dropped", (ME, "        if self.index.has_duplicates:\n            raise ValueError(\"Duplicate indices have been found\")\n", ""), "S3.rejects-duplicate-index")
M("C16", "M13-downside-nonpositive", (ME, "        neg_returns = simple_returns[simple_returns < 0]", "        neg_returns = simple_returns[simple_returns < 0.001]"), "S")
M("C16", "M14-martin-abs", (ME, "        return np.sqrt(self.drawdown().pow(2).mean())", "        return np.sqrt(self.drawdown().abs().mean())"), "S4.formula")
M("C16", "M15-cagr-first-last-swapped", (ME, "        cagr = (level.iloc[-1] / level.iloc[0]) ** (1 / years) - 1", "        cagr = (level.iloc[-1] / level.iloc[1]) ** (1 / years) - 1"), "S4.formula")
M("C16", "M16-validate-early-return", (ME, "        if self.index.has_duplicates:\n            raise ValueError(\"Duplicate indices have been found\")", "        if len(self) < 3:\n            return\n        if self.index.has_duplicates:\n            raise ValueError(\"Duplicate indices have been found\")"), "S3.no-early-return")
M("C16", "M17-tracking-error-level-diff", (ME, "        excess_returns = self.excess_returns(other)\n        return np.sqrt(BDAYS) * excess_returns.std()", "        excess_returns = self.level() - other.level()\n        return np.sqrt(BDAYS) * excess_returns.std()"), "S")
M("C16", "M18-cumret-first-row", (ME, "        level_start = level.loc[level.first_valid_index()]\n        return level / level_start - 1", "        level_start = level.loc[level.first_valid_index()]\n        return level - level_start"), "S1.scale-invariant")
E("C16", "E1-drawdown-div", (ME, "        return level / level.cummax() - 1", "        peak = level.cummax()\n        return level / peak - 1"))
E("C16", "E2-years-local", (ME, "        cagr = (level.iloc[-1] / level.iloc[0]) ** (1 / years) - 1\n        return cagr", "        growth = level.iloc[-1] / level.iloc[0]\n        return growth ** (1 / years) - 1"))

# ------------------------------------------------------------------ C18
M("C18", "M1-half-spread-full", (TM, "                half_spread = price * spread / 2", "                half_spread = price * spread"), "S1.quote-from-price")
M("C18", "M2-rate-with-spread", (EN, "        transmitter.add_prices(rate.to_frame())", "        transmitter.add_prices(rate.to_frame(), spread)"), "S1.rate-without-spread")
M("C18", "M3-published-shifted", (EN, "        self.X = X\n        self.Y = Y", "        self.X = X.shift(1)\n        self.Y = Y"), "S2.published-X-is-served-X")
M("C18", "M4-window-off-by-one", (EN, "        timesteps = timesteps[window:]", "        timesteps = timesteps[window - 1:]"), "S3")
M("C18", "M5-no-holiday-drop", (EN, "        timesteps = Y.drop([t for t in holidays if t in Y.index]).index", "        timesteps = Y.index"), "S3")
M("C18", "M6-stride-from-oldest", (ST, "            x = x[::-self.stride][::-1]", "            x = x[::self.stride]"), "S4.stride-from-most-recent")
M("C18", "M7-spread-is-fee", (EN, "            transmitter=self._make_transmitter(X, Y, calendar, spread, rate, folds, window),", "            transmitter=self._make_transmitter(X, Y, calendar, fee, rate, folds, window),"), "S1.transmitter-arguments")
M("C18", "M8-asymmetric-clip", (EN, "        X.clip(-clip, clip, inplace=True)", "        X.clip(0, clip, inplace=True)"), "S5.symmetric-clip")
M("C18", "M9-clip-before-fill", (EN, "        X.ffill(inplace=True)\n        X.fillna(0., inplace=True)\n        X.clip(-clip, clip, inplace=True)", "        X.clip(-clip, clip, inplace=True)\n        X.ffill(inplace=True)\n        X.fillna(0., inplace=True)"), "S5")
M("C18", "M10-warmup-short", (EN, "        warmup = None if markov_reset else timedelta(days=3 + window * 2)", "        warmup = None if markov_reset else timedelta(days=3 + window)"), "S6.warmup-covers-window")
M("C18", "M11-observations-filtered", (EN, "        events = [EventNewObservation(t, x) for t, x in X.iterrows()]", "        events = [EventNewObservation(t, x) for t, x in X.iterrows() if t in Y.index]"), "S2.one-observation-per-row")
M("C18", "M12-no-prefill", (ST, "        if self.last_event is None:\n            for _ in range(self.queue.maxlen):\n                self.queue.append([event.to_list()])\n", ""), "S4.prefill-on-first-event")
M("C18", "M13-shape-floor", (ST, "        m = window if stride is None else math.ceil(window / stride)", "        m = window if stride is None else window // stride"), "S4.declared-shape")
M("C18", "M14-queue-window-plus-1", (ST, "        self.queue = deque(maxlen=window)", "        self.queue = deque(maxlen=window + 1)"), "S4.queue-capacity-window")
M("C18", "M15-bid-is-price", (TM, "                    bid_price=price - half_spread,", "                    bid_price=price,"), "S1.quote-from-price")
M("C18", "M16-table-mutated-after", (EN, "        # Set attributes.\n        self.X = X", "        # Set attributes.\n        X.fillna(1., inplace=True)\n        self.X = X"), "S")
M("C18", "M17-margin-not-passed", (EN, "            action_space=BoxPortfolio(Y.columns, max_short, max_long, margin=margin),", "            action_space=BoxPortfolio(Y.columns, max_short, max_long),"), "S6.env-config-action_space")
M("C18", "M18-holidays-half-open", (EN, "        Y = Y.loc[start:end]\n        timesteps = Y.drop([t for t in holidays if t in Y.index]).index", "        Y = Y.loc[start:end]\n        holidays = holidays[(holidays >= start) & (holidays < end)]\n        timesteps = Y.drop([t for t in holidays if t in Y.index]).index"), "S3")
E("C18", "E1-bid-factor", (TM, "                half_spread = price * spread / 2\n                event = EventNBBO(\n                    time=time,\n                    contract=contract,\n                    bid_price=price - half_spread,\n                    ask_price=price + half_spread,", "                event = EventNBBO(\n                    time=time,\n                    contract=contract,\n                    bid_price=price * (1 - spread / 2),\n                    ask_price=price * (1 + spread / 2),"))
E("C18", "E2-timesteps-local", (EN, "        timesteps = Y.drop([t for t in holidays if t in Y.index]).index\n        timesteps = timesteps[window:]\n        return timesteps", "        open_days = Y.drop([t for t in holidays if t in Y.index]).index\n        return open_days[window:]"))
