"""Self-validation catalogue: text splices of the *current* tree.

expect='fire'   : the change breaks a decided clause; the property's check must
                  report it (optionally by the named rule).
expect='silent' : behaviour-preserving rewrite; the check must stay silent.
A variant whose anchor text is not found exactly once is skipped and counted.
"""

BR = "tradingenv/broker/broker.py"
TR = "tradingenv/broker/trade.py"
FE = "tradingenv/broker/fees.py"
RB = "tradingenv/broker/rebalancing.py"
AL = "tradingenv/broker/allocation.py"
TK = "tradingenv/broker/track_record.py"
EX = "tradingenv/exchange.py"
CO = "tradingenv/contracts.py"
EV = "tradingenv/events.py"
TM = "tradingenv/transmitter.py"
EN = "tradingenv/env.py"
SP = "tradingenv/spaces.py"
RW = "tradingenv/rewards.py"
ST = "tradingenv/state.py"
FT = "tradingenv/features.py"
LB = "tradingenv/library.py"
ME = "tradingenv/metrics.py"

CATALOGUE = []


def M(prop, id, edits, rule=None):
    if isinstance(edits, tuple):
        edits = [edits]
    CATALOGUE.append({"prop": prop, "id": f"{prop}/{id}", "edits": edits, "expect": "fire", "rule": rule})


def E(prop, id, edits):
    if isinstance(edits, tuple):
        edits = [edits]
    CATALOGUE.append({"prop": prop, "id": f"{prop}/{id}", "edits": edits, "expect": "silent", "rule": None})


# ------------------------------------------------------------------ C09
M("C09", "M1-strict", (BR, "if raise_if_broke and nlv <= 0:", "if raise_if_broke and nlv < 0:"), "S1.nonpositive-raises")
M("C09", "M2-no-done-guard", (EN, "        if self._done:\n            raise EndOfEpisodeError(\n                \"The current episode has ended. To start a new episode use \"\n                \"TradingEnv.reset().\"\n            )\n        self._queue_actions.appendleft(action)", "        self._queue_actions.appendleft(action)"), "S4.done-guard")
M("C09", "M3-wrong-except", (EN, "        except EndOfEpisodeError:\n            info = dict()", "        except ValueError:\n            info = dict()"), "S3")
M("C09", "M4-default-false", (BR, "def net_liquidation_value(self, raise_if_broke: bool = True)", "def net_liquidation_value(self, raise_if_broke: bool = False)"), "S1.default-raises")
M("C09", "M5-new-unguarded-valuation", (EN, "        self._process_nonlatent_events()\n        reward =", "        self._process_nonlatent_events()\n        self.broker.holdings_weights()\n        reward ="), "S5.no-escape")
M("C09", "M6-guard-late", (EN, "        if self._done:\n            raise EndOfEpisodeError(\n                \"The current episode has ended. To start a new episode use \"\n                \"TradingEnv.reset().\"\n            )\n        self._queue_actions.appendleft(action)\n        action = self._queue_actions.pop()",
                           "        self._queue_actions.appendleft(action)\n        action = self._queue_actions.pop()\n        if self._done:\n            raise EndOfEpisodeError(\n                \"The current episode has ended. To start a new episode use \"\n                \"TradingEnv.reset().\"\n            )"), "S4.guard-first")
M("C09", "M7-handler-forgets-done", (EN, "            info = dict()\n            self._done = True", "            info = dict()"), "S3.handler-ends-episode")
M("C09", "M8-trades-before-valuation", (BR, "        rebalancing.context_pre = self.context()\n        rebalancing.trades = rebalancing.make_trades(self)\n        for trade in rebalancing.trades:\n            self.transact(trade)",
                                         "        rebalancing.trades = rebalancing.make_trades(self)\n        for trade in rebalancing.trades:\n            self.transact(trade)\n        rebalancing.context_pre = self.context()"), None)
M("C09", "M9-step-clears-done", (EN, "        self._process_nonlatent_events()\n        reward =", "        self._process_nonlatent_events()\n        self._done = False\n        reward ="), "S4.done-values")
M("C09", "M10-extra-condition", (BR, "if raise_if_broke and nlv <= 0:", "if raise_if_broke and nlv <= 0 and len(self.track_record) > 0:"), "S1")
E("C09", "E1-not-gt", (BR, "if raise_if_broke and nlv <= 0:", "if raise_if_broke and not (nlv > 0):"))
E("C09", "E2-handler-reordered", (EN, "            info = dict()\n            self._done = True", "            self._done = True\n            info = dict()"))
E("C09", "E3-local-alias", (BR, "        nlv = sum(holdings_values.values())\n        if raise_if_broke and nlv <= 0:", "        nlv = sum(holdings_values.values())\n        broke = nlv <= 0\n        if raise_if_broke and broke:"))
